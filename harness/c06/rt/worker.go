package rt

// Worker subprocesses: cases run in re-exec'd copies of the harness binary so that a panic,
// a fatal runtime error ("concurrent map writes", out of memory) or a hang of the code under
// test is an OBSERVATION of the case that caused it ("crashed" / "blocked" plus the first
// panic line), not a failure of the harness.

import (
	"bufio"
	"bytes"
	"context"
	"encoding/json"
	"fmt"
	"os"
	"os/exec"
	"path/filepath"
	"strings"
	"sync"
	"sync/atomic"
	"syscall"
	"time"
)

const (
	workerEnv    = "VERIFH_WORKER_OUT"
	workerInEnv  = "VERIFH_WORKER_IN"
	workerArgEnv = "VERIFH_WORKER_ARG"
)

// Job is one case: its id and its (JSON-able) input. Obs is filled by Dispatch.
type Job struct {
	ID  string
	In  interface{}
	Obs json.RawMessage
	// Crashed/Blocked are set when the worker died or hung on this case.
	Crashed bool
	Blocked bool
	Panic   string
	// Skipped: not run, because enough earlier cases of this run hung or crashed (circuit breaker)
	Skipped bool
}

// circuit breaker: once this many cases of a run have hung or crashed the implementation is
// evidently broken and what has been recorded suffices as failing input; every further hanging
// case would cost its full deadline.
var badJobs atomic.Int64

const maxBadJobs = 6

type wireCase struct {
	ID  string          `json:"id"`
	In  json.RawMessage `json:"in"`
	Obs json.RawMessage `json:"obs,omitempty"`
}

// IsWorker reports whether this process is a worker, and if so runs every case of its input
// file through `run`, appending one line per finished case to its output file (written and
// synced case by case, so that the parent knows exactly which case a crash belongs to).
func IsWorker(run func(arg string, id string, in json.RawMessage) interface{}) bool {
	out := os.Getenv(workerEnv)
	if out == "" {
		return false
	}
	Quiet()
	inPath := os.Getenv(workerInEnv)
	arg := os.Getenv(workerArgEnv)
	f, err := os.Open(inPath)
	if err != nil {
		fmt.Fprintln(os.Stderr, "worker:", err)
		os.Exit(4)
	}
	of, err := os.OpenFile(out, os.O_CREATE|os.O_WRONLY|os.O_APPEND, 0o644)
	if err != nil {
		fmt.Fprintln(os.Stderr, "worker:", err)
		os.Exit(4)
	}
	sc := bufio.NewScanner(f)
	sc.Buffer(make([]byte, 1<<20), 1<<30)
	for sc.Scan() {
		var c wireCase
		if err := json.Unmarshal(sc.Bytes(), &c); err != nil {
			fmt.Fprintln(os.Stderr, "worker:", err)
			os.Exit(4)
		}
		obs := run(arg, c.ID, c.In)
		b, err := json.Marshal(obs)
		if err != nil {
			fmt.Fprintln(os.Stderr, "worker:", err)
			os.Exit(4)
		}
		line, _ := json.Marshal(wireCase{ID: c.ID, Obs: b})
		of.Write(append(line, '\n'))
	}
	of.Close()
	return true
}

var batchN atomic.Int64

func firstPanicLine(stderr []byte) string {
	for _, l := range strings.Split(string(stderr), "\n") {
		if strings.HasPrefix(l, "panic:") || strings.HasPrefix(l, "fatal error:") || strings.HasPrefix(l, "runtime:") {
			if len(l) > 300 {
				l = l[:300]
			}
			return l
		}
	}
	s := strings.TrimSpace(string(stderr))
	if len(s) > 300 {
		s = s[:300]
	}
	return s
}

// runBatch runs the jobs in one worker after another until every job has an observation.
func runBatch(dir, prop, arg string, jobs []*Job, perCase time.Duration, env []string) error {
	rest := jobs
	for len(rest) > 0 {
		if badJobs.Load() >= maxBadJobs {
			for _, j := range rest {
				j.Skipped = true
			}
			return nil
		}
		n := batchN.Add(1)
		inPath := filepath.Join(dir, fmt.Sprintf("w%d.in", n))
		outPath := filepath.Join(dir, fmt.Sprintf("w%d.out", n))
		var buf bytes.Buffer
		for _, j := range rest {
			in, err := json.Marshal(j.In)
			if err != nil {
				return err
			}
			line, _ := json.Marshal(wireCase{ID: j.ID, In: in})
			buf.Write(line)
			buf.WriteByte('\n')
		}
		if err := os.WriteFile(inPath, buf.Bytes(), 0o644); err != nil {
			return err
		}
		wdir := filepath.Join(dir, fmt.Sprintf("w%d", n))
		ctx, cancel := context.WithTimeout(context.Background(), 30*time.Second+time.Duration(len(rest))*perCase)
		cmd := exec.CommandContext(ctx, os.Args[0], prop, "-out", wdir)
		// a worker must not outlive this process (bin/check may kill us on its own timeout)
		cmd.SysProcAttr = &syscall.SysProcAttr{Pdeathsig: syscall.SIGKILL}
		cmd.Env = append(append(os.Environ(), workerEnv+"="+outPath, workerInEnv+"="+inPath, workerArgEnv+"="+arg), env...)
		var stderr bytes.Buffer
		cmd.Stderr = &stderr
		cmd.Stdout = &stderr
		// progress watchdog: a case that hangs must cost its own budget, not the whole batch's —
		// the worker is killed as soon as its output has not grown for perCase (+ start-up slack)
		var stalled atomic.Bool
		runErr := cmd.Start()
		if runErr == nil {
			waitC := make(chan error, 1)
			go func() { waitC <- cmd.Wait() }()
			last, lastSize := time.Now(), int64(-1)
			tick := time.NewTicker(200 * time.Millisecond)
		loop:
			for {
				select {
				case runErr = <-waitC:
					break loop
				case <-tick.C:
					var size int64
					if st, err := os.Stat(outPath); err == nil {
						size = st.Size()
					}
					if size != lastSize {
						last, lastSize = time.Now(), size
					} else if time.Since(last) > perCase+15*time.Second {
						stalled.Store(true)
						cmd.Process.Kill()
					}
				}
			}
			tick.Stop()
		}
		timedOut := ctx.Err() != nil || stalled.Load()
		cancel()
		done := 0
		if f, err := os.Open(outPath); err == nil {
			sc := bufio.NewScanner(f)
			sc.Buffer(make([]byte, 1<<20), 1<<30)
			for sc.Scan() && done < len(rest) {
				var c wireCase
				if json.Unmarshal(sc.Bytes(), &c) != nil || c.ID != rest[done].ID {
					break
				}
				rest[done].Obs = c.Obs
				done++
			}
			f.Close()
		}
		os.Remove(inPath)
		os.Remove(outPath)
		os.RemoveAll(wdir)
		if done == len(rest) {
			return nil
		}
		if runErr == nil && !timedOut {
			return fmt.Errorf("worker exited normally after %d of %d cases: %s", done, len(rest), firstPanicLine(stderr.Bytes()))
		}
		j := rest[done]
		badJobs.Add(1)
		if timedOut {
			j.Blocked = true
		} else {
			j.Crashed = true
			j.Panic = firstPanicLine(stderr.Bytes())
		}
		rest = rest[done+1:]
	}
	return nil
}

// Dispatch runs all jobs in worker subprocesses, `par` at a time, in batches of `batch`.
func Dispatch(dir, prop, arg string, jobs []*Job, batch, par int, perCase time.Duration, env ...string) error {
	var batches [][]*Job
	for i := 0; i < len(jobs); i += batch {
		batches = append(batches, jobs[i:min(len(jobs), i+batch)])
	}
	ch := make(chan []*Job)
	var wg sync.WaitGroup
	var mu sync.Mutex
	var firstErr error
	for k := 0; k < par; k++ {
		wg.Add(1)
		go func() {
			defer wg.Done()
			for b := range ch {
				if badJobs.Load() >= maxBadJobs {
					for _, j := range b {
						j.Skipped = true
					}
					continue
				}
				if err := runBatch(dir, prop, arg, b, perCase, env); err != nil {
					mu.Lock()
					if firstErr == nil {
						firstErr = err
					}
					mu.Unlock()
				}
			}
		}()
	}
	for _, b := range batches {
		ch <- b
	}
	close(ch)
	wg.Wait()
	if n := badJobs.Load(); n >= maxBadJobs {
		fmt.Fprintf(os.Stderr, "verifh %s: %d cases hung or crashed; the remaining cases of this stream were skipped\n", prop, n)
	}
	return firstErr
}
