// Package c20 is the correspondence harness for property C20: the device-injector and
// ulimit-adjuster sample plugins, built from $VERIF_REPO/plugins/* on every run and launched
// as pre-installed plugins (10-device-injector, 20-ulimit-adjuster) by a real
// adaptation.Adaptation; each case is one CreateContainer request for a pod with a generated
// annotation set. The observation is the CreateContainerResponse (canonical) or the error
// kind. The YAML layer is the trusted oracle: the harness decodes every payload with the
// same library into copies of the plugins' struct types and hands the result to the driver.
package c20

import (
	"context"
	"encoding/json"
	"fmt"
	"os"
	"os/exec"
	"path/filepath"
	"strings"
	"sync"
	"time"
	"unicode"

	"github.com/containerd/nri/pkg/adaptation"
	"github.com/containerd/nri/pkg/api"
	"sigs.k8s.io/yaml"

	"verifh/internal/hx"
	"verifh/internal/lineio"
)

// ---------------------------------------------------------------- line protocol types

// copies of the plugins' annotation payload types (same JSON tags)
type device struct {
	Path     string `json:"path"`
	Type     string `json:"type"`
	Major    int64  `json:"major"`
	Minor    int64  `json:"minor"`
	FileMode uint32 `json:"file_mode"`
	UID      uint32 `json:"uid"`
	GID      uint32 `json:"gid"`
}

type mount struct {
	Source      string   `json:"source"`
	Destination string   `json:"destination"`
	Type        string   `json:"type"`
	Options     []string `json:"options"`
}

type ulimit struct {
	Type string `json:"type"`
	Hard uint64 `json:"hard"`
	Soft uint64 `json:"soft"`
}

// one pod annotation plus what the YAML oracle says about its value
type annIn struct {
	K       string   `json:"k"`
	V       string   `json:"v"`
	Fam     string   `json:"fam"` // devices | cdi | mounts | ulimits | "" (not one of ours)
	OK      bool     `json:"ok"`  // the YAML library accepted V for the family's target type
	Devices []device `json:"devices"`
	CDI     []string `json:"cdi"`
	Mounts  []mount  `json:"mounts"`
	Ulimits []ulimit `json:"ulimits"`
}

type podIn struct {
	Kind   string  `json:"kind"` // "pod"
	Stream string  `json:"stream"`
	Ctr    string  `json:"ctr"`
	Ann    []annIn `json:"ann"`
}

type devObs struct {
	Path     string `json:"path"`
	Type     string `json:"type"`
	Major    int64  `json:"major"`
	Minor    int64  `json:"minor"`
	HasMode  bool   `json:"has_mode"`
	FileMode uint32 `json:"file_mode"`
	HasUID   bool   `json:"has_uid"`
	UID      uint32 `json:"uid"`
	HasGID   bool   `json:"has_gid"`
	GID      uint32 `json:"gid"`
}

type rlObs struct {
	Type string `json:"type"`
	Hard uint64 `json:"hard"`
	Soft uint64 `json:"soft"`
}

type podObs struct {
	Err     string   `json:"err"` // "" = success; else an error kind
	Devices []devObs `json:"devices"`
	CDI     []string `json:"cdi"`
	Mounts  []mount  `json:"mounts"`
	Rlimits []rlObs  `json:"rlimits"`
	Other   string   `json:"other"`   // "" or the name of any other part of the response that is not empty
	Crashed bool     `json:"crashed"` // a plugin was gone after this request (sentinel request failed)
}

const (
	deviceKey = "devices.nri.io"
	mountKey  = "mounts.nri.io"
	cdiKey    = "cdi-devices.nri.io"
	ulimitKey = "ulimits.nri.containerd.io"
)

func family(key string) string {
	main := key
	if i := strings.Index(key, "/"); i >= 0 {
		main = key[:i]
	}
	switch main {
	case deviceKey:
		return "devices"
	case mountKey:
		return "mounts"
	case cdiKey:
		return "cdi"
	case ulimitKey:
		return "ulimits"
	}
	return ""
}

// oracle: what yaml.Unmarshal leaves in the plugin's target variable for this family
func decode(a *annIn) {
	a.Fam = family(a.K)
	a.OK, a.Devices, a.CDI, a.Mounts, a.Ulimits = false, []device{}, []string{}, []mount{}, []ulimit{}
	switch a.Fam {
	case "devices":
		var v []device
		if yaml.Unmarshal([]byte(a.V), &v) == nil {
			a.OK = true
			a.Devices = append(a.Devices, v...)
		}
	case "cdi":
		var v []string
		if yaml.Unmarshal([]byte(a.V), &v) == nil {
			a.OK = true
			a.CDI = append(a.CDI, v...)
		}
	case "mounts":
		var v []mount
		if yaml.Unmarshal([]byte(a.V), &v) == nil {
			a.OK = true
			for _, m := range v {
				if m.Options == nil {
					m.Options = []string{}
				}
				a.Mounts = append(a.Mounts, m)
			}
		}
	case "ulimits":
		v := make([]ulimit, 0)
		if yaml.Unmarshal([]byte(a.V), &v) == nil {
			a.OK = true
			a.Ulimits = append(a.Ulimits, v...)
		}
	}
}

// ---------------------------------------------------------------- building the plugins

func repoDir() string {
	if r := os.Getenv("VERIF_REPO"); r != "" {
		return r
	}
	return "/repo"
}

// buildPlugin builds $repo/plugins/<name> (its own module, `replace => ../..`) into out,
// offline, without writing anything inside the repository: go.mod/go.sum are copied next to
// the output and passed with -modfile.
func buildPlugin(repo, name, workdir, out string) error {
	src := filepath.Join(repo, "plugins", name)
	mod, err := os.ReadFile(filepath.Join(src, "go.mod"))
	if err != nil {
		return err
	}
	abs, err := filepath.Abs(repo)
	if err != nil {
		return err
	}
	txt := strings.ReplaceAll(string(mod), "=> ../..", "=> "+abs)
	mf := filepath.Join(workdir, name+".mod")
	if err := os.WriteFile(mf, []byte(txt), 0o644); err != nil {
		return err
	}
	if sum, err := os.ReadFile(filepath.Join(src, "go.sum")); err == nil {
		if err := os.WriteFile(filepath.Join(workdir, name+".sum"), sum, 0o644); err != nil {
			return err
		}
	}
	ctx, cancel := context.WithTimeout(context.Background(), 5*time.Minute)
	defer cancel()
	cmd := exec.CommandContext(ctx, "go", "build", "-modfile", mf, "-o", out, ".")
	cmd.Dir = src
	cmd.Env = append(os.Environ(), "GOFLAGS=-mod=mod", "GOPROXY=off", "GOSUMDB=off", "GOTOOLCHAIN=local", "CGO_ENABLED=0")
	if b, err := cmd.CombinedOutput(); err != nil {
		return fmt.Errorf("go build %s: %v\n%s", name, err, b)
	}
	return nil
}

// ---------------------------------------------------------------- a runtime with the two plugins

type worker struct {
	pluginDir string
	confDir   string
	r         *adaptation.Adaptation
}

func newWorker(pluginDir, confDir string) (*worker, error) {
	w := &worker{pluginDir: pluginDir, confDir: confDir}
	if err := w.start(); err != nil {
		return nil, err
	}
	return w, nil
}

func (w *worker) start() error {
	syncFn := func(ctx context.Context, cb adaptation.SyncCB) error {
		_, err := cb(ctx, nil, nil)
		return err
	}
	updateFn := func(context.Context, []*api.ContainerUpdate) ([]*api.ContainerUpdate, error) {
		return nil, nil
	}
	r, err := adaptation.New("verifh", "0", syncFn, updateFn,
		adaptation.WithPluginPath(w.pluginDir),
		adaptation.WithPluginConfigPath(w.confDir),
		adaptation.WithDisabledExternalConnections())
	if err != nil {
		return err
	}
	if err := r.Start(); err != nil {
		return err
	}
	w.r = r
	if !w.sentinel() {
		r.Stop()
		return fmt.Errorf("the two plugins did not both answer the sentinel request after Start")
	}
	return nil
}

func (w *worker) stop() {
	if w.r != nil {
		w.r.Stop()
		w.r = nil
	}
}

func request(ctr string, ann map[string]string) *api.CreateContainerRequest {
	return &api.CreateContainerRequest{
		Pod:       &api.PodSandbox{Id: "pod0", Name: "pod0", Uid: "uid0", Namespace: "default", Annotations: ann},
		Container: &api.Container{Id: "ctr0", PodSandboxId: "pod0", Name: ctr},
	}
}

// sentinel: a fixed request both plugins must answer with one device and one rlimit
func (w *worker) sentinel() bool {
	ctx, cancel := context.WithTimeout(context.Background(), 60*time.Second)
	defer cancel()
	rsp, err := w.r.CreateContainer(ctx, request("sentinel", map[string]string{
		deviceKey + "/container.sentinel": "- path: /dev/sentinel\n  type: c\n  major: 1\n  minor: 2\n",
		ulimitKey + "/container.sentinel": "- type: nofile\n  hard: 2\n  soft: 1\n",
	}))
	if err != nil || rsp == nil || rsp.Adjust == nil {
		return false
	}
	return len(rsp.Adjust.GetLinux().GetDevices()) == 1 && len(rsp.Adjust.GetRlimits()) == 1
}

func classify(err error) string {
	s := err.Error()
	if i := strings.Index(s, "desc = "); i >= 0 {
		s = s[i+len("desc = "):]
	}
	switch {
	case strings.HasPrefix(s, "invalid device annotation"):
		return "bad-devices"
	case strings.HasPrefix(s, "invalid CDI device annotation"):
		return "bad-cdi"
	case strings.HasPrefix(s, "invalid mount annotation"):
		return "bad-mounts"
	case strings.HasPrefix(s, "failed to parse type"):
		return "bad-type"
	case strings.HasPrefix(s, "ulimit ") && strings.Contains(s, "must have hard limit"):
		return "hard-lt-soft"
	case strings.Contains(s, "both tried to set mount"):
		return "conflict-mount"
	case strings.Contains(s, "both tried to set device"):
		return "conflict-device"
	case strings.Contains(s, "both tried to set CDI device"):
		return "conflict-cdi"
	case strings.Contains(s, "both tried to set rlimit"):
		return "conflict-rlimit"
	case strings.HasPrefix(s, "error unmarshaling JSON"), strings.HasPrefix(s, "error converting YAML to JSON"),
		strings.HasPrefix(s, "yaml:"), strings.HasPrefix(s, "json:"):
		return "bad-ulimits"
	case strings.Contains(s, "context deadline exceeded"):
		return "timeout"
	}
	if os.Getenv("C20_DEBUG") != "" {
		fmt.Fprintln(os.Stderr, "other-error:", err)
	}
	return "other-error"
}

func (w *worker) run(in *podIn) podObs {
	ann := map[string]string{}
	for i := range in.Ann {
		decode(&in.Ann[i]) // the YAML oracle, recomputed on every run (also on replay)
		ann[in.Ann[i].K] = in.Ann[i].V
	}
	o := podObs{Devices: []devObs{}, CDI: []string{}, Mounts: []mount{}, Rlimits: []rlObs{}}
	ctx, cancel := context.WithTimeout(context.Background(), 60*time.Second)
	rsp, err := w.r.CreateContainer(ctx, request(in.Ctr, ann))
	cancel()
	if err != nil {
		o.Err = classify(err)
	} else {
		canon(rsp, &o)
	}
	if !w.sentinel() {
		o.Crashed = true
		w.stop()
		if err := w.start(); err != nil {
			// cannot continue with this worker; every later case on it will show as crashed
			w.r = nil
		}
	}
	return o
}

func canon(rsp *api.CreateContainerResponse, o *podObs) {
	if rsp == nil {
		o.Other = "nil-response"
		return
	}
	if len(rsp.Update) != 0 {
		o.Other = "update"
	}
	if len(rsp.Evict) != 0 {
		o.Other = "evict"
	}
	a := rsp.Adjust
	if a == nil {
		return
	}
	for _, d := range a.GetLinux().GetDevices() {
		x := devObs{Path: d.Path, Type: d.Type, Major: d.Major, Minor: d.Minor}
		if d.FileMode != nil {
			x.HasMode, x.FileMode = true, d.FileMode.Value
		}
		if d.Uid != nil {
			x.HasUID, x.UID = true, d.Uid.Value
		}
		if d.Gid != nil {
			x.HasGID, x.GID = true, d.Gid.Value
		}
		o.Devices = append(o.Devices, x)
	}
	for _, c := range a.CDIDevices {
		o.CDI = append(o.CDI, c.Name)
	}
	for _, m := range a.Mounts {
		opts := m.Options
		if opts == nil {
			opts = []string{}
		}
		o.Mounts = append(o.Mounts, mount{Source: m.Source, Destination: m.Destination, Type: m.Type, Options: opts})
	}
	for _, l := range a.Rlimits {
		o.Rlimits = append(o.Rlimits, rlObs{Type: l.Type, Hard: l.Hard, Soft: l.Soft})
	}
	// everything else must be empty
	switch {
	case len(a.Annotations) != 0:
		o.Other = "annotations"
	case len(a.Env) != 0:
		o.Other = "env"
	case len(a.Args) != 0:
		o.Other = "args"
	case a.Hooks != nil && (len(a.Hooks.Prestart)+len(a.Hooks.CreateRuntime)+len(a.Hooks.CreateContainer)+
		len(a.Hooks.StartContainer)+len(a.Hooks.Poststart)+len(a.Hooks.Poststop)) != 0:
		o.Other = "hooks"
	case a.Linux != nil && a.Linux.CgroupsPath != "":
		o.Other = "cgroups-path"
	case a.Linux != nil && a.Linux.OomScoreAdj != nil:
		o.Other = "oom-score-adj"
	case a.Linux != nil && a.Linux.Resources != nil && !emptyResources(a.Linux.Resources):
		o.Other = "resources"
	}
}

func emptyResources(r *api.LinuxResources) bool {
	if len(r.HugepageLimits) != 0 || len(r.Unified) != 0 || len(r.Devices) != 0 {
		return false
	}
	if r.BlockioClass != nil || r.RdtClass != nil || r.Pids != nil {
		return false
	}
	if m := r.Memory; m != nil {
		if m.Limit != nil || m.Reservation != nil || m.Swap != nil || m.Kernel != nil || m.KernelTcp != nil ||
			m.Swappiness != nil || m.DisableOomKiller != nil || m.UseHierarchy != nil {
			return false
		}
	}
	if c := r.Cpu; c != nil {
		if c.Shares != nil || c.Quota != nil || c.Period != nil || c.RealtimeRuntime != nil ||
			c.RealtimePeriod != nil || c.Cpus != "" || c.Mems != "" {
			return false
		}
	}
	return true
}

// ---------------------------------------------------------------- the upper-casing table

type upperObs struct {
	ASCII []int    `json:"ascii"` // unicode.ToUpper(c) for c = 0 … 127
	Extra [][2]int `json:"extra"` // every non-ASCII rune r with unicode.ToUpper(r) < 128, with its image
	Str   bool     `json:"str"`   // strings.ToUpper agrees with the rune-wise map on probe strings
}

func upperCase() upperObs {
	o := upperObs{ASCII: []int{}, Extra: [][2]int{}, Str: true}
	for c := rune(0); c < 128; c++ {
		o.ASCII = append(o.ASCII, int(unicode.ToUpper(c)))
	}
	for r := rune(128); r <= unicode.MaxRune; r++ {
		if u := unicode.ToUpper(r); u < 128 {
			o.Extra = append(o.Extra, [2]int{int(r), int(u)})
		}
	}
	for _, s := range []string{"nofile", "rlimit_cpu", "nıce", "ſtack", "Rlimit_Memlock", "Straße", "ǆ"} {
		want := []rune{}
		for _, r := range s {
			want = append(want, unicode.ToUpper(r))
		}
		if strings.ToUpper(s) != string(want) {
			o.Str = false
		}
	}
	return o
}

// ---------------------------------------------------------------- Run

func Run(o *hx.Opts, w *lineio.Writer) error {
	var inputs []*podIn
	var ids []string
	upper := false
	if o.Replay != "" {
		cases, err := hx.ReplayCases(o.Replay)
		if err != nil {
			return err
		}
		for _, c := range cases {
			var k struct {
				Kind string `json:"kind"`
			}
			if err := json.Unmarshal(c.In, &k); err != nil {
				return err
			}
			switch k.Kind {
			case "upper":
				upper = true
			case "pod":
				in := &podIn{}
				if err := json.Unmarshal(c.In, in); err != nil {
					return err
				}
				inputs = append(inputs, in)
				ids = append(ids, c.ID)
			default:
				return fmt.Errorf("unknown case kind %q", k.Kind)
			}
		}
	} else {
		upper = true
		inputs = generate(o)
		for i, in := range inputs {
			ids = append(ids, fmt.Sprintf("%s-%d", in.Stream, i))
		}
	}
	if upper {
		w.Put(&lineio.Case{ID: "upper", In: map[string]string{"kind": "upper"}, Obs: upperCase()})
	}
	if len(inputs) == 0 {
		return nil
	}

	// build the two plugins from the repository under test
	pluginDir := filepath.Join(o.Scratch, "plugins")
	confDir := filepath.Join(o.Scratch, "conf.d")
	buildDir := filepath.Join(o.Scratch, "build")
	for _, d := range []string{pluginDir, confDir, buildDir} {
		if err := os.MkdirAll(d, 0o755); err != nil {
			return err
		}
	}
	t0 := time.Now()
	if err := buildPlugin(repoDir(), "device-injector", buildDir, filepath.Join(pluginDir, "10-device-injector")); err != nil {
		return err
	}
	if err := buildPlugin(repoDir(), "ulimit-adjuster", buildDir, filepath.Join(pluginDir, "20-ulimit-adjuster")); err != nil {
		return err
	}
	tBuild := time.Since(t0)
	adaptation.SetPluginRequestTimeout(30 * time.Second)
	adaptation.SetPluginRegistrationTimeout(30 * time.Second)

	nw := 8
	if len(inputs) < 64 {
		nw = 1
	}
	obs := make([]podObs, len(inputs))
	var wg sync.WaitGroup
	errs := make([]error, nw)
	t1 := time.Now()
	for k := 0; k < nw; k++ {
		wg.Add(1)
		go func(k int) {
			defer wg.Done()
			wk, err := newWorker(pluginDir, confDir)
			if err != nil {
				errs[k] = err
				return
			}
			defer wk.stop()
			for i := k; i < len(inputs); i += nw {
				if wk.r == nil {
					obs[i] = podObs{Err: "no-runtime", Crashed: true, Devices: []devObs{}, CDI: []string{}, Mounts: []mount{}, Rlimits: []rlObs{}}
					continue
				}
				obs[i] = wk.run(inputs[i])
			}
		}(k)
	}
	wg.Wait()
	for _, err := range errs {
		if err != nil {
			return err
		}
	}
	el := time.Since(t1)
	for i, in := range inputs {
		w.Put(&lineio.Case{ID: ids[i], In: in, Obs: obs[i]})
	}
	fmt.Fprintf(os.Stderr, "c20: plugins built in %.1fs; %d requests (+%d sentinels) through 2 launched plugins on %d runtimes in %.2fs = %.0f cases/s\n",
		tBuild.Seconds(), len(inputs), len(inputs)+nw, nw, el.Seconds(), float64(len(inputs))/el.Seconds())
	return nil
}
