// Package c20 is the correspondence harness for property C20 (placeholder).
package c20

import (
	"errors"

	"verifh/internal/hx"
	"verifh/internal/lineio"
)

func Run(o *hx.Opts, w *lineio.Writer) error {
	return errors.New("C20 harness not implemented")
}
