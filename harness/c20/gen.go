package c20

import (
	"fmt"
	"math"
	"math/rand"
	"strings"
	"sync"

	"sigs.k8s.io/yaml"

	"verifh/internal/hx"
)

// Generators. Streams:
//   sys     systematic: family × every subset of the five scopes {this container, a container
//           whose name is a proper prefix of ours, one whose name extends ours, pod, bare key}
//           × which of the present annotations is malformed (none, or each one in turn)
//   names   every name of `valid` × spellings (lower, upper, mixed, with/without RLIMIT_ in
//           three cases) + a table of names that must be refused
//   rand    random pods: all four families at once, random scopes, random payloads generated
//           as structures and serialised with the YAML library
//   bad     malformed / ill-typed payload table under the most specific key, plus hard < soft
//   excl    outside the guard: one key named twice, names carrying the removal marker

var validNames = []string{"AS", "CORE", "CPU", "DATA", "FSIZE", "LOCKS", "MEMLOCK", "MSGQUEUE", "NICE",
	"NOFILE", "NPROC", "RSS", "RTPRIO", "RTTIME", "SIGPENDING", "STACK"}

var mainOf = map[string]string{"devices": deviceKey, "cdi": cdiKey, "mounts": mountKey, "ulimits": ulimitKey}
var families = []string{"devices", "cdi", "mounts", "ulimits"}

// container names: prefix chains, names that look like key parts, empty, unicode
var ctrNames = []string{"c", "c1", "c12", "c1.", "c1/pod", "ctr", "ctr-0", "", "pod", "container.c", "C1", "é", "c é", "-c"}

func marshal(v interface{}) string {
	b, err := yaml.Marshal(v)
	if err != nil {
		panic(err)
	}
	return string(b)
}

type gen struct {
	r *rand.Rand
	n int
}

func (g *gen) pick(xs []string) string { return xs[g.r.Intn(len(xs))] }

func (g *gen) u32() uint32 {
	switch g.r.Intn(6) {
	case 0, 1:
		return 0
	case 2:
		return math.MaxUint32
	case 3:
		return uint32(g.r.Intn(8))
	case 4:
		return uint32(0o600 + g.r.Intn(0o200))
	}
	return g.r.Uint32()
}

func (g *gen) i64() int64 {
	switch g.r.Intn(6) {
	case 0:
		return 0
	case 1:
		return -int64(g.r.Intn(300))
	case 2:
		return math.MaxInt64
	case 3:
		return math.MinInt64
	}
	return int64(g.r.Intn(512))
}

func (g *gen) u64() uint64 {
	switch g.r.Intn(6) {
	case 0:
		return 0
	case 1:
		return math.MaxUint64
	case 2:
		return uint64(1) << uint(g.r.Intn(64))
	}
	return uint64(g.r.Intn(100000))
}

// tag makes payloads of different scopes visibly different
func (g *gen) devices(tag string, n int) []device {
	out := []device{}
	for i := 0; i < n; i++ {
		g.n++
		out = append(out, device{
			Path: fmt.Sprintf("/dev/%s%d", tag, g.n), Type: g.pick([]string{"c", "b", "p", "u", ""}),
			Major: g.i64(), Minor: g.i64(), FileMode: g.u32(), UID: g.u32(), GID: g.u32(),
		})
	}
	return out
}

func (g *gen) cdis(tag string, n int) []string {
	out := []string{}
	for i := 0; i < n; i++ {
		g.n++
		out = append(out, fmt.Sprintf("vendor%d.com/%s=dev%d", g.r.Intn(3), tag, g.n))
	}
	return out
}

func (g *gen) mounts(tag string, n int) []mount {
	out := []mount{}
	for i := 0; i < n; i++ {
		g.n++
		m := mount{Source: fmt.Sprintf("/host/%s%d", tag, g.n), Destination: fmt.Sprintf("/mnt/%s%d", tag, g.n),
			Type: g.pick([]string{"bind", "tmpfs", ""})}
		switch g.r.Intn(4) {
		case 0:
			m.Options = nil
		case 1:
			m.Options = []string{}
		case 2:
			m.Options = []string{"bind", "ro"}
		default:
			m.Options = []string{"rw", "", "nosuid", "size=" + fmt.Sprint(g.r.Intn(99))}
		}
		out = append(out, m)
	}
	return out
}

func mixCase(r *rand.Rand, s string) string {
	b := []byte(s)
	for i := range b {
		if r.Intn(2) == 0 {
			b[i] = byte(strings.ToLower(string(b[i]))[0])
		}
	}
	return string(b)
}

func (g *gen) spell(name string) string {
	s := name
	if g.r.Intn(2) == 0 {
		s = "RLIMIT_" + s
	}
	switch g.r.Intn(3) {
	case 0:
		return strings.ToLower(s)
	case 1:
		return s
	}
	return mixCase(g.r, s)
}

// distinct valid names so that the guard (no type twice) holds
func (g *gen) ulimits(n int, badType, badOrder bool) []ulimit {
	perm := g.r.Perm(len(validNames))
	out := []ulimit{}
	for i := 0; i < n && i < len(perm); i++ {
		soft := g.u64()
		hard := soft
		if soft < math.MaxUint64 && g.r.Intn(2) == 0 {
			hard = soft + uint64(g.r.Intn(1000))
			if hard < soft {
				hard = math.MaxUint64
			}
		}
		out = append(out, ulimit{Type: g.spell(validNames[perm[i]]), Hard: hard, Soft: soft})
	}
	if len(out) > 0 && badType {
		out[g.r.Intn(len(out))].Type = g.pick(badTypes)
	}
	if len(out) > 0 && badOrder {
		i := g.r.Intn(len(out))
		out[i].Soft = 1 + uint64(g.r.Intn(1000))
		out[i].Hard = out[i].Soft - 1
	}
	return out
}

var badTypes = []string{"FOO", "", "RLIMIT_", "RLIMIT_RLIMIT_CPU", "rlimit_rlimit_nofile", "CPU ", " CPU", "RLIMITCPU", "LIMIT_CPU",
	"_CPU", "NOFILES", "R", "cpu\n", "RLIMIT-CPU", "É", "nofilé"}

// unicode specials: ı (U+0131) and ſ (U+017F) upper-case into ASCII, so these ARE accepted
var oddAccepted = []string{"nıce", "ſtack", "rlımıt_cpu", "RLIMIT_RſS", "ſıgpendıng"}

func (g *gen) payload(fam, tag string, n int) string {
	switch fam {
	case "devices":
		return marshal(g.devices(tag, n))
	case "cdi":
		return marshal(g.cdis(tag, n))
	case "mounts":
		return marshal(g.mounts(tag, n))
	}
	return marshal(g.ulimits(n, false, false))
}

// malformed or ill-typed payloads; the YAML oracle says which of them are in fact accepted
var malformed = map[string][]string{
	"devices": {"{", "- path: [", "foo: bar", "- 1", "- path: 1", "- path: /dev/x\n  major: abc", "- path: /dev/x\n  file_mode: 4294967296",
		"- path: /dev/x\n  uid: -1", "- path: /dev/x\n  major: 1.5", "just a string", "- path: /dev/x\n\tmajor: 1", "- - a", "path: /dev/x",
		"- path: /dev/x\n  major: 9223372036854775808", "[}", "- path: /dev/x\n- path", "- {path: /dev/x, type: [c]}", "- path: true"},
	"cdi": {"{", "- 1", "- [a]", "a: b", "- {a: b}", "x", "- true", "- 1.5", "[a, b", "- a\n- 2"},
	"mounts": {"{", "- destination: [", "a: b", "- 7", "- source: 1", "- destination: /x\n  options: ro", "- destination: /x\n  options: [1]",
		"- destination: /x\n  options: {a: b}", "x", "- destination: /x\n- 3", "- destination: true"},
	"ulimits": {"{", "- type: [", "a: b", "- 3", "- type: 1\n  hard: 1\n  soft: 1", "- type: cpu\n  hard: -1\n  soft: 0", "- type: cpu\n  hard: 1.5",
		"- type: cpu\n  hard: 18446744073709551616", "- type: cpu\n  hard: abc", "x", "- type: cpu\n  hard: 1\n- 5", "- type: cpu\n  soft: \"1\""},
}

// payloads that look odd but decode (null documents, empty, unknown / wrongly-cased fields,
// a null element, numbers in other notations, fields of another family)
var oddOK = map[string][]string{
	"devices": {"", "null", "~", "[]", "- null", "- {}", "- PATH: /dev/up\n  Type: c\n  MAJOR: 4", "- path: /dev/x\n  unknown: 1",
		"- path: /dev/h\n  major: 0x10\n  minor: 0o17\n  file_mode: 0644", "- path: /dev/f\n  major: 1e2", "- {path: /dev/j, type: c, major: 1, minor: 2}",
		"[{\"path\": \"/dev/json\", \"uid\": 7}]", "- source: /a\n  destination: /b", "- path: /dev/d\n  path: /dev/e", "---\n- path: /dev/doc",
		"- path: \"/dev/q\"\n  file_mode: 438\n  uid: 0\n  gid: 0", "- path: ''"},
	"cdi": {"", "null", "[]", "- a", "- \"\"", "- null", "[\"x/y=z\", \"x/y=w\"]", "- vendor.com/class=a # comment"},
	"mounts": {"", "null", "[]", "- null", "- {}", "- destination: /x\n  options: null", "- destination: /x\n  options: []", "- DESTINATION: /up\n  Source: /s",
		"- path: /dev/x\n  type: c", "[{\"destination\": \"/j\", \"options\": [\"ro\"]}]"},
	"ulimits": {"", "null", "[]", "- {}", "- null", "- type: nofile", "- TYPE: cpu\n  HARD: 2\n  Soft: 1", "- type: core\n  hard: 0x10\n  soft: 0o7",
		"- type: nproc\n  hard: 1e3\n  soft: 10", "[{\"type\": \"RLIMIT_AS\", \"hard\": 18446744073709551615, \"soft\": 0}]", "- type: stack\n  extra: 1"},
}

func key(fam, scope, name string) string {
	switch scope {
	case "ctr":
		return mainOf[fam] + "/container." + name
	case "pod":
		return mainOf[fam] + "/pod"
	}
	return mainOf[fam]
}

func addAnn(in *podIn, k, v string) {
	for i := range in.Ann {
		if in.Ann[i].K == k {
			in.Ann[i].V = v
			return
		}
	}
	in.Ann = append(in.Ann, annIn{K: k, V: v})
}

func generate(o *hx.Opts) []*podIn {
	var out []*podIn
	g := &gen{r: o.Rand(20)}

	// ---- sys: family × 2^5 scope subsets × malformed position
	{
		this, shorter, longer := "c1", "c", "c12"
		scopes := []struct{ scope, name, tag string }{
			{"ctr", this, "this"}, {"ctr", shorter, "shorter"}, {"ctr", longer, "longer"}, {"pod", "", "pod"}, {"bare", "", "bare"}}
		for _, fam := range families {
			for mask := 0; mask < 32; mask++ {
				var present []int
				for b := 0; b < 5; b++ {
					if mask&(1<<b) != 0 {
						present = append(present, b)
					}
				}
				for bad := -1; bad < len(present); bad++ {
					in := &podIn{Kind: "pod", Stream: "sys", Ctr: this}
					for j, b := range present {
						s := scopes[b]
						v := g.payload(fam, s.tag, 1+g.r.Intn(2))
						if j == bad {
							v = g.pick(malformed[fam])
						}
						addAnn(in, key(fam, s.scope, s.name), v)
					}
					out = append(out, in)
				}
			}
		}
	}

	// ---- names: every valid name in every spelling class; refused names
	{
		prefixes := []string{"", "RLIMIT_", "rlimit_", "Rlimit_", "rLiMiT_"}
		for _, n := range validNames {
			for _, p := range prefixes {
				for _, sp := range []string{n, strings.ToLower(n), mixCase(g.r, n)} {
					in := &podIn{Kind: "pod", Stream: "names", Ctr: "c1"}
					addAnn(in, key("ulimits", "ctr", "c1"), marshal([]ulimit{{Type: p + sp, Hard: 10, Soft: 5}}))
					out = append(out, in)
				}
			}
		}
		for _, t := range append(append([]string{}, badTypes...), oddAccepted...) {
			in := &podIn{Kind: "pod", Stream: "names", Ctr: "c1"}
			addAnn(in, key("ulimits", "ctr", "c1"), marshal([]ulimit{{Type: "cpu", Hard: 1, Soft: 1}, {Type: t, Hard: 10, Soft: 5}}))
			out = append(out, in)
		}
	}

	// ---- bad: malformed and odd-but-accepted payloads under each scope; hard < soft at each position
	for _, fam := range families {
		for _, tbl := range []map[string][]string{malformed, oddOK} {
			for _, v := range tbl[fam] {
				for _, scope := range []string{"ctr", "pod", "bare"} {
					in := &podIn{Kind: "pod", Stream: "bad", Ctr: "c1"}
					addAnn(in, key(fam, scope, "c1"), v)
					// a well-formed payload of another family next to it: nothing of it may survive an error
					other := families[(indexOf(families, fam)+1+g.r.Intn(3))%4]
					addAnn(in, key(other, "ctr", "c1"), g.payload(other, "other", 1))
					out = append(out, in)
				}
			}
		}
	}
	for n := 1; n <= 4; n++ {
		for pos := 0; pos < n; pos++ {
			for _, what := range []string{"order", "type"} {
				us := g.ulimits(n, false, false)
				if what == "order" {
					us[pos].Soft, us[pos].Hard = 7, 6
				} else {
					us[pos].Type = g.pick(badTypes)
				}
				in := &podIn{Kind: "pod", Stream: "bad", Ctr: "c1"}
				addAnn(in, key("ulimits", "ctr", "c1"), marshal(us))
				addAnn(in, key("devices", "pod", ""), g.payload("devices", "pod", 1))
				out = append(out, in)
			}
		}
	}

	// ---- rand, excl (outside the guard): one PRNG per case, generated in parallel
	nr := o.N(12000, 200000)
	ne := o.N(600, 8000)
	tail := make([]*podIn, nr+ne)
	var wg sync.WaitGroup
	for k := 0; k < 8; k++ {
		wg.Add(1)
		go func(k int) {
			defer wg.Done()
			for i := k; i < nr+ne; i += 8 {
				gi := &gen{r: o.Rand(1000 + int64(i))}
				if i < nr {
					tail[i] = gi.randomPod("rand", false)
				} else {
					tail[i] = gi.randomPod("excl", true)
				}
			}
		}(k)
	}
	wg.Wait()
	out = append(out, tail...)
	return out
}

func indexOf(xs []string, x string) int {
	for i, y := range xs {
		if x == y {
			return i
		}
	}
	return 0
}

// related container names: prefixes and extensions of ctr, plus unrelated ones
func (g *gen) others(ctr string) []string {
	var out []string
	if rs := []rune(ctr); len(rs) > 0 {
		out = append(out, string(rs[:len(rs)-1]))
		if len(rs) > 1 {
			out = append(out, string(rs[:1]))
		}
	}
	out = append(out, ctr+"2", ctr+".", ctr+"/pod", "x"+ctr, strings.ToUpper(ctr)+"", g.pick(ctrNames), g.pick(ctrNames))
	var res []string
	for _, n := range out {
		if n != ctr {
			res = append(res, n)
		}
	}
	return res
}

func (g *gen) randomPod(stream string, outside bool) *podIn {
	in := &podIn{Kind: "pod", Stream: stream, Ctr: g.pick(ctrNames)}
	others := g.others(in.Ctr)
	breakFam := ""
	if outside {
		breakFam = g.pick(families)
	}
	for _, fam := range families {
		// which scopes are present
		for _, scope := range []string{"ctr", "pod", "bare"} {
			if g.r.Intn(100) < 45 {
				v := g.value(fam, scope, outside && fam == breakFam)
				addAnn(in, key(fam, scope, in.Ctr), v)
			}
		}
		// annotations addressed to other containers (often malformed: they must not matter)
		for k := g.r.Intn(3); k > 0; k-- {
			name := g.pick(others)
			v := g.value(fam, "other", false)
			if g.r.Intn(3) == 0 {
				v = g.pick(malformed[fam])
			}
			addAnn(in, key(fam, "ctr", name), v)
		}
	}
	// unrelated annotations, near-miss keys
	for k := g.r.Intn(3); k > 0; k-- {
		fam := g.pick(families)
		nm := g.pick([]string{
			mainOf[fam] + "/container" + in.Ctr, mainOf[fam] + "/pods", mainOf[fam] + "/", mainOf[fam] + ".", "x" + mainOf[fam],
			mainOf[fam] + "/Container." + in.Ctr, mainOf[fam] + "/container." + in.Ctr + " ", "io.kubernetes.cri/x", strings.ToUpper(mainOf[fam]),
			mainOf[fam] + "/POD"})
		if nm == key(fam, "ctr", in.Ctr) {
			continue
		}
		addAnn(in, nm, g.pick(malformed[fam]))
	}
	return in
}

func (g *gen) value(fam, tag string, outside bool) string {
	x := g.r.Intn(100)
	if outside {
		return g.outsidePayload(fam, tag)
	}
	switch {
	case x < 6:
		return g.pick(malformed[fam])
	case x < 14:
		return g.pick(oddOK[fam])
	case fam == "ulimits" && x < 20:
		return marshal(g.ulimits(1+g.r.Intn(4), true, false))
	case fam == "ulimits" && x < 26:
		return marshal(g.ulimits(1+g.r.Intn(4), false, true))
	case fam == "ulimits" && x < 29:
		return marshal([]ulimit{{Type: g.pick(oddAccepted), Hard: 3, Soft: 2}})
	}
	return g.payload(fam, tag, g.r.Intn(4))
}

// outside the guard: the same key twice, or a name carrying the removal marker
func (g *gen) outsidePayload(fam, tag string) string {
	dup := g.r.Intn(2) == 0
	switch fam {
	case "devices":
		ds := g.devices(tag, 2+g.r.Intn(2))
		if dup {
			ds[len(ds)-1].Path = ds[0].Path
		} else {
			ds[g.r.Intn(len(ds))].Path = "-/dev/marked"
		}
		return marshal(ds)
	case "cdi":
		cs := g.cdis(tag, 2+g.r.Intn(2))
		cs[len(cs)-1] = cs[0]
		return marshal(cs)
	case "mounts":
		ms := g.mounts(tag, 2+g.r.Intn(2))
		if dup {
			ms[len(ms)-1].Destination = ms[0].Destination
		} else {
			ms[g.r.Intn(len(ms))].Destination = "-/mnt/marked"
		}
		return marshal(ms)
	}
	us := g.ulimits(2+g.r.Intn(2), false, false)
	n := validNames[g.r.Intn(len(validNames))]
	us[0].Type = strings.ToLower(n)
	us[len(us)-1].Type = "RLIMIT_" + n
	return marshal(us)
}
