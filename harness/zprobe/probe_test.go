package zprobe

import (
	"errors"
	"fmt"
	"io"
	"net"
	"syscall"
	"testing"
	"time"

	nrinet "github.com/containerd/nri/pkg/net"
	mux "github.com/containerd/nri/pkg/net/multiplex"
)

func pair(t *testing.T) (net.Conn, net.Conn) {
	sp, err := nrinet.NewSocketPair()
	if err != nil {
		t.Fatal(err)
	}
	a, err := sp.LocalConn()
	if err != nil {
		t.Fatal(err)
	}
	b, err := sp.PeerConn()
	if err != nil {
		t.Fatal(err)
	}
	return a, b
}

type res struct {
	n   int
	err error
}

func readT(c net.Conn, buf []byte, d time.Duration) (int, error, bool) {
	ch := make(chan res, 1)
	go func() { n, err := c.Read(buf); ch <- res{n, err} }()
	select {
	case r := <-ch:
		return r.n, r.err, true
	case <-time.After(d):
		return 0, nil, false
	}
}

func TestProbe(t *testing.T) {
	a, b := pair(t)
	ma := mux.Multiplex(a)
	mb := mux.Multiplex(b, mux.WithReadQueueLength(4))
	ca, _ := ma.Open(5)
	cb, _ := mb.Open(5)
	// empty payload
	n, err := ca.Write(nil)
	fmt.Println("write empty", n, err)
	buf := make([]byte, 100)
	n, err, ok := readT(cb, buf, time.Second)
	fmt.Println("read empty", n, err, ok)
	// small buffer
	ca.Write([]byte("hello world"))
	ca.Write([]byte("second"))
	n, err, ok = readT(cb, make([]byte, 3), time.Second)
	fmt.Println("small buf", n, err, ok, errors.Is(err, syscall.ENOMEM))
	n, err, ok = readT(cb, buf, time.Second)
	fmt.Println("next", n, err, ok, string(buf[:n]))
	// len<frame<=cap
	ca.Write([]byte("hello world"))
	bb := make([]byte, 3, 64)
	n, err, ok = readT(cb, bb, time.Second)
	fmt.Println("len<frame<=cap", n, err, ok, string(bb))
	// close mb, then open new conn, read
	ca.Write([]byte("q1"))
	ca.Write([]byte("q2"))
	ca.Write([]byte("q3"))
	time.Sleep(50 * time.Millisecond)
	mb.Close()
	for i := 0; i < 10; i++ {
		n, err, ok = readT(cb, buf, time.Second)
		fmt.Println("after close read", n, err, ok)
	}
	n, err = cb.Write([]byte("x"))
	fmt.Println("after close write", n, err)
	cn, err := mb.Open(9)
	fmt.Println("open after close", cn != nil, err)
	n, err, ok = readT(cn, buf, time.Second)
	fmt.Println("read on conn opened after close: returned=", ok, n, err)
	n, err = cn.Write([]byte("x"))
	fmt.Println("write on conn opened after close", n, err)
	cb2, _ := mb.Open(5)
	fmt.Println("reopen same id same obj:", cb2 == cb)
	time.Sleep(50 * time.Millisecond)
	n, err, ok = readT(ca, buf, time.Second)
	fmt.Println("peer read after close", n, err, ok, err == io.EOF)
	n, err = ca.Write([]byte("x"))
	fmt.Println("peer write after close", n, err)
}

func TestMax(t *testing.T) {
	a, b := pair(t)
	ma := mux.Multiplex(a)
	mb := mux.Multiplex(b)
	ca, _ := ma.Open(1)
	cb, _ := mb.Open(1)
	go ca.Write(make([]byte, 9<<20))
	buf := make([]byte, 16<<20)
	for i := 0; i < 3; i++ {
		n, err, ok := readT(cb, buf, 5*time.Second)
		fmt.Println("chunk", n, err, ok)
	}
}

func TestLatch(t *testing.T) {
	a, b := pair(t)
	ma := mux.Multiplex(a)
	mb := mux.Multiplex(b, mux.WithReadQueueLength(2))
	ca, _ := ma.Open(1)
	cb, _ := mb.Open(1)
	cb2, _ := mb.Open(2)
	cb2.Close()
	buf := make([]byte, 100)
	n, err, ok := readT(cb2, buf, time.Second)
	fmt.Println("read on closed conn", n, err, ok)
	for i := 0; i < 4; i++ {
		ca.Write([]byte("x"))
	}
	time.Sleep(50 * time.Millisecond)
	for i := 0; i < 8; i++ {
		n, err, ok = readT(cb, buf, time.Second)
		fmt.Println("after overflow read", n, err, ok)
	}
}

func TestCut(t *testing.T) {
	for _, k := range []int{0, 3, 8, 10, 13} {
		a, b := pair(t)
		mb := mux.Multiplex(b)
		cb, _ := mb.Open(1)
		fr := []byte{0, 0, 0, 1, 0, 0, 0, 5, 'h', 'e', 'l', 'l', 'o', 0, 0, 0, 1}
		a.Write(fr[:k])
		a.(*net.UnixConn).CloseWrite()
		buf := make([]byte, 100)
		for i := 0; i < 3; i++ {
			n, err, ok := readT(cb, buf, time.Second)
			fmt.Println("cut", k, "read", n, err, ok)
		}
		a.Close()
	}
}
