package c16

// Executes one history (a sequence of Start/Stop/Wait/lose/await/dispatch/update operations)
// against a real stub.Stub connected to the scripted runtime end, every call under a
// deadline, and records what happened in one global order.

import (
	"context"
	"errors"
	"fmt"
	"net"
	"os"
	"path/filepath"
	"strconv"
	"strings"
	"sync"
	"syscall"
	"time"

	"github.com/containerd/nri/pkg/api"
	"github.com/containerd/nri/pkg/stub"
	"github.com/containerd/ttrpc"
)

// Op is one operation of a history.
type Op struct {
	// start | stop | wait | lose | await | dispatch | update | pause
	Op     string `json:"op"`
	Script Script `json:"script"` // start only (zero value otherwise)
}

// HistIn is the input of one case.
type HistIn struct {
	Kind     string `json:"kind"` // "hist"
	Ops      []Op   `json:"ops"`
	Excluded bool   `json:"excluded"` // outside the property's domain (stall; pre-connected stub restarted)
	// how the stub gets its connection: "dialer" (or ""), "given" (stub.WithConnection),
	// "env" (NRI_PLUGIN_SOCKET, as the runtime launches pre-installed plugins)
	Src string `json:"src"`
	Stream   string `json:"stream"`   // which generator stream produced it (for the evidence)
}

// rec is one record of the observed history. Records are appended under one mutex; the
// position in the slice is the global order.
type rec struct {
	T string `json:"t"` // call | ret | notify | onclose | cut | cfg | waitret | end
	// call/ret
	Op     string `json:"op"`
	I      int    `json:"i"`      // index of the operation in the input
	Res    string `json:"res"`    // ret: ok|err|blocked|returned|pending|closed|none|all|timeout|fail
	Kind   string `json:"kind"`   // ret start err: already|dial|register|closed|configure|other
	Dialed bool   `json:"dialed"` // ret start: the stub dialled a new connection during this call
	Conn   int    `json:"conn"`   // ret start: number of that connection (accept order); cut: connection number
	Sid    int    `json:"sid"`    // ret start: number of the ttrpc client (session) created during this call, 0 if none; notify: session
	Down   bool   `json:"down"`   // call wait: the harness had already seen the session end (full deadline applies)
	Adopted bool  `json:"adopted"` // ret start: the stub took a socket that is not its own into use (descriptor number reused)
	// cut
	Facts *Facts `json:"facts"`
	// end
	WaitsLeft int `json:"waits_left"` // Wait calls still blocked at the end (after the final Stop)
	Clients   int `json:"clients"`    // ttrpc clients (sessions) the stub created in total
	Calls     int `json:"calls"`      // CreateContainer invocations the plugin saw
}

type evlog struct {
	mu   sync.Mutex
	recs []rec
	cond *sync.Cond
}

func newLog() *evlog { l := &evlog{}; l.cond = sync.NewCond(&l.mu); return l }

var dbgT0 = time.Now()

func (l *evlog) add(r rec) {
	if os.Getenv("VERIFH_C16_DEBUG") != "" {
		fmt.Fprintf(os.Stderr, "T %8.3fms %s %s %s sid=%d\n", float64(time.Since(dbgT0).Microseconds())/1000, r.T, r.Op, r.Res, r.Sid)
	}
	l.mu.Lock()
	l.recs = append(l.recs, r)
	l.cond.Broadcast()
	l.mu.Unlock()
}

func (l *evlog) snapshot() []rec {
	l.mu.Lock()
	defer l.mu.Unlock()
	return append([]rec(nil), l.recs...)
}

// thePlugin is the plugin behind the stub.
type thePlugin struct {
	mu       sync.Mutex
	cfgFail  bool
	cfgDelay time.Duration
	calls    int
	syncs    int
	log      *evlog
}

// opKey: the context handed to Start carries the index of that Start operation; ttrpc derives
// every handler context of the connection from it, so the Configure callback knows which
// Start call's connection it is being configured on.
type opKey struct{}

func (p *thePlugin) Configure(ctx context.Context, _, _, _ string) (stub.EventMask, error) {
	p.mu.Lock()
	fail, delay := p.cfgFail, p.cfgDelay
	p.mu.Unlock()
	if delay > 0 {
		time.Sleep(delay)
	}
	i, _ := ctx.Value(opKey{}).(int)
	if fail {
		p.log.add(rec{T: "cfg", I: i, Res: "err"})
		return 0, errors.New("c16-configure-refused")
	}
	p.log.add(rec{T: "cfg", I: i, Res: "ok"})
	return 0, nil
}

func (p *thePlugin) Synchronize(_ context.Context, _ []*api.PodSandbox, _ []*api.Container) ([]*api.ContainerUpdate, error) {
	p.mu.Lock()
	p.syncs++
	p.mu.Unlock()
	return nil, nil
}

func (p *thePlugin) CreateContainer(_ context.Context, _ *api.PodSandbox, _ *api.Container) (*api.ContainerAdjustment, []*api.ContainerUpdate, error) {
	p.mu.Lock()
	p.calls++
	p.mu.Unlock()
	return nil, nil, nil
}

// Deadlines. A call that has not returned after `deadline` is observed as "blocked".
type timing struct {
	deadline time.Duration // every call
	grace    time.Duration // Wait while the session is (as far as the harness has seen) still up
	regTO    time.Duration // the stub's default registration timeout (noAnswer without context deadline)
}

var defaultTiming = timing{deadline: 4 * time.Second, grace: 100 * time.Millisecond, regTO: 5 * time.Second}

type executor struct {
	tm      timing
	log     *evlog
	rt      *runtimeEnd
	st      stub.Stub
	pl      *thePlugin
	mu      sync.Mutex
	clients int          // ttrpc clients created by the stub
	notified map[int]bool // sessions whose close notification has completed
	dials   int
	okDials int // connections the stub obtained (dialled and accepted, pre-made taken into use, foreign adopted) = connection numbers handed out
	waitsMu sync.Mutex
	waits   int // Wait goroutines not yet returned
	// what the harness itself has seen (only used to choose between deadline and grace, and by await)
	liveSid  int // session of the last successful Start while no stop/lose followed, else 0
	liveConn int // its connection number
}

// live: the session the harness believes to be up (0 = none): the last successful Start's,
// unless a Stop or lose followed or the runtime end has dropped its connection since.
func (e *executor) live() int {
	if e.liveSid == 0 {
		return 0
	}
	if s := e.rt.session(e.liveConn); s == nil || s.fc.isClosed() {
		return 0
	}
	return e.liveSid
}

func (e *executor) nclients() int { e.mu.Lock(); defer e.mu.Unlock(); return e.clients }

// timed runs f in a goroutine and reports whether it returned within d.
func timed(d time.Duration, f func()) bool {
	done := make(chan struct{})
	go func() { f(); close(done) }()
	t := time.NewTimer(d)
	defer t.Stop()
	select {
	case <-done:
		return true
	case <-t.C:
		return false
	}
}

func errKind(err error) string {
	if err == nil {
		return ""
	}
	s := err.Error()
	switch {
	case strings.Contains(s, "already started"):
		return "already"
	case strings.Contains(s, "invalid socket"):
		return "preconn"
	case strings.Contains(s, "failed to connect to NRI service"):
		return "dial"
	case strings.Contains(s, "failed to register"):
		return "register"
	case strings.Contains(s, "c16-configure-refused"):
		return "configure"
	case strings.Contains(s, "before") && strings.Contains(s, "configur"):
		return "closed"
	}
	return "other"
}

// runHistory executes the operations and returns the records. dir: scratch directory for
// the socket (path must stay short).
func runHistory(in HistIn, dir string, tag string, tm timing) (recs []rec) {
	lg := newLog()
	e := &executor{tm: tm, log: lg, pl: &thePlugin{log: lg}, notified: map[int]bool{}}
	sock := filepath.Join(dir, tag+".sock")
	rt, err := newRuntimeEnd(sock, lg)
	if err != nil {
		return []rec{{T: "end", Res: "harness-error", Kind: err.Error()}}
	}
	e.rt = rt
	defer func() {
		// never leave the runtime end behind, whatever state the stub is in
		go rt.close()
	}()

	// a connection made before the stub exists (WithConnection / NRI_PLUGIN_SOCKET)
	opts := []stub.Option{}
	var prePeer net.Conn // the runtime end's side, served when the first Start begins
	envFd := -1
	if in.Src == "given" || in.Src == "env" {
		fds, err := syscall.Socketpair(syscall.AF_UNIX, syscall.SOCK_STREAM|syscall.SOCK_CLOEXEC, 0)
		if err != nil {
			return []rec{{T: "end", Res: "harness-error", Kind: err.Error()}}
		}
		pf := os.NewFile(uintptr(fds[1]), "peer")
		prePeer, err = net.FileConn(pf)
		pf.Close()
		if err != nil {
			return []rec{{T: "end", Res: "harness-error", Kind: err.Error()}}
		}
		if in.Src == "given" {
			lf := os.NewFile(uintptr(fds[0]), "local")
			lc, err := net.FileConn(lf)
			lf.Close()
			if err != nil {
				return []rec{{T: "end", Res: "harness-error", Kind: err.Error()}}
			}
			opts = append(opts, stub.WithConnection(lc))
			defer lc.Close()
		} else {
			// the descriptor NUMBER is all the stub gets; the harness never wraps it
			envFd = fds[0]
			os.Setenv(api.PluginSocketEnvVar, strconv.Itoa(envFd))
			defer os.Unsetenv(api.PluginSocketEnvVar)
		}
		defer func() {
			if prePeer != nil {
				prePeer.Close()
				if envFd >= 0 {
					syscall.Close(envFd)
				}
			}
		}()
	}
	planted, plantPeer := -1, -1 // a socket of the harness's own sitting at the old descriptor number
	defer func() {
		if plantPeer >= 0 {
			syscall.Close(plantPeer)
		}
		if planted >= 0 {
			syscall.Close(planted)
		}
	}()

	var pending *Script // script of the Start in progress; taken by the dialer
	var pmu sync.Mutex
	dialer := func(p string) (net.Conn, error) {
		pmu.Lock()
		sc := pending
		pmu.Unlock()
		e.mu.Lock()
		e.dials++
		e.mu.Unlock()
		if sc != nil && sc.Kind == "dialFail" {
			return net.Dial("unix", p+".absent")
		}
		e.mu.Lock()
		e.okDials++
		e.mu.Unlock()
		if sc != nil {
			rt.scripts <- *sc
		} else {
			rt.scripts <- Script{Kind: "ok"}
		}
		return net.Dial("unix", p)
	}
	clientHook := func(c *ttrpc.Client) {
		e.mu.Lock()
		e.clients++
		sid := e.clients
		e.mu.Unlock()
		go func() {
			// returns once the stub's close handler for this client has run to completion
			c.UserOnCloseWait(context.Background())
			lg.add(rec{T: "notify", Sid: sid}) // recorded before await can see it
			e.mu.Lock()
			e.notified[sid] = true
			e.mu.Unlock()
		}()
	}
	opts = append(opts,
		stub.WithPluginName("c16"), stub.WithPluginIdx("16"),
		stub.WithSocketPath(sock), stub.WithDialer(dialer),
		stub.WithOnClose(func() { lg.add(rec{T: "onclose"}) }),
		stub.WithTTRPCOptions([]ttrpc.ClientOpts{clientHook}, nil))
	st, err := stub.New(e.pl, opts...)
	if err != nil {
		return []rec{{T: "end", Res: "harness-error", Kind: err.Error()}}
	}
	e.st = st

	blocked := false
	for i, op := range in.Ops {
		if blocked {
			break
		}
		switch op.Op {
		case "start":
			sc := op.Script
			pmu.Lock()
			pending = &sc
			pmu.Unlock()
			e.pl.mu.Lock()
			e.pl.cfgFail = sc.Kind == "cfgErr"
			e.pl.cfgDelay = time.Duration(sc.CfgDelayMs) * time.Millisecond
			e.pl.mu.Unlock()
			e.mu.Lock()
			d0, c0, k0 := e.dials, e.clients, e.okDials
			e.mu.Unlock()
			if prePeer != nil {
				// the first Start takes the pre-made connection into use: the runtime end
				// serves its side according to this Start's script
				e.mu.Lock()
				e.okDials++
				e.mu.Unlock()
				if sc.Kind == "dialFail" {
					// "unreachable" for a connection that exists already: its other end is
					// gone — the runtime end hangs up before reading a byte (and keeps its
					// session table in step with the connection numbers)
					rt.serve(prePeer, Script{Kind: "cut", Dir: "p2r", K: 0})
				} else {
					rt.serve(prePeer, sc)
				}
				prePeer = nil
			}
			ctx, cancel := context.WithValue(context.Background(), opKey{}, i), context.CancelFunc(func() {})
			if sc.CtxMs > 0 {
				ctx, cancel = context.WithTimeout(ctx, time.Duration(sc.CtxMs)*time.Millisecond)
			}
			d := tm.deadline
			if (sc.Kind == "noAnswer" && sc.CtxMs == 0) || planted >= 0 || (in.Src == "env" && prePeer == nil) {
				d += tm.regTO
			}
			lg.add(rec{T: "call", Op: "start", I: i})
			var serr error
			ok := timed(d, func() { serr = st.Start(ctx) })
			_ = cancel // the context must outlive Start: the stub serves requests under it
			adopted := false
			if planted >= 0 && ok {
				// did the stub talk into the harness's own socket?
				buf := make([]byte, 4096)
				syscall.SetNonblock(plantPeer, true)
				if n, _ := syscall.Read(plantPeer, buf); n > 0 {
					adopted = true
					planted = -1 // the stub has closed it; the number is not the harness's any more
				}
			}
			e.mu.Lock()
			if adopted {
				e.okDials++
			}
			r := rec{T: "ret", Op: "start", I: i, Dialed: e.dials > d0, Adopted: adopted}
			if e.clients > c0 {
				r.Sid = e.clients
			}
			if e.okDials > k0 {
				r.Conn = e.okDials
			}
			e.mu.Unlock()
			if r.Conn > 0 && !adopted && sc.Kind != "dialFail" {
				// the accept may lag the dial by a scheduling quantum
				for j := 0; j < 2000 && rt.nsessions() < r.Conn; j++ {
					time.Sleep(time.Millisecond)
				}
			}
			switch {
			case !ok:
				r.Res, blocked = "blocked", true
			case serr == nil:
				r.Res = "ok"
				e.liveSid, e.liveConn = r.Sid, r.Conn
			default:
				r.Res, r.Kind = "err", errKind(serr)
			}
			lg.add(r)
			pmu.Lock()
			pending = nil
			pmu.Unlock()
		case "stop":
			lg.add(rec{T: "call", Op: "stop", I: i})
			ok := timed(tm.deadline, func() { st.Stop() })
			r := rec{T: "ret", Op: "stop", I: i, Res: "returned"}
			if !ok {
				r.Res, blocked = "blocked", true
			}
			e.liveSid = 0
			lg.add(r)
		case "wait":
			down := e.observedDown()
			lg.add(rec{T: "call", Op: "wait", I: i, Down: down})
			e.waitsMu.Lock()
			e.waits++
			e.waitsMu.Unlock()
			d := tm.grace
			if down {
				d = tm.deadline
			}
			// a Wait that outlives its grace period is "pending"; its eventual return is a
			// record of its own (waitret), ordered after the pending record
			var wmu sync.Mutex
			returned, pendingLogged := false, false
			ok := timed(d, func() {
				st.Wait()
				wmu.Lock()
				returned = true
				if pendingLogged {
					lg.add(rec{T: "waitret", I: i})
				}
				wmu.Unlock()
				e.waitsMu.Lock()
				e.waits--
				e.waitsMu.Unlock()
			})
			r := rec{T: "ret", Op: "wait", I: i, Res: "returned", Down: down}
			wmu.Lock()
			if !ok && !returned {
				if down {
					r.Res, blocked = "blocked", true
				} else {
					r.Res = "pending"
				}
				pendingLogged = true
			}
			lg.add(r)
			wmu.Unlock()
		case "lose":
			lg.add(rec{T: "call", Op: "lose", I: i})
			r := rec{T: "ret", Op: "lose", I: i, Res: "none"}
			if s := rt.current(); s != nil {
				r.Conn = s.idx
				if s.fc.drop(false) {
					r.Res = "closed"
				}
			}
			e.liveSid = 0
			lg.add(r)
		case "await":
			lg.add(rec{T: "call", Op: "await", I: i})
			r := rec{T: "ret", Op: "await", I: i, Res: "all"}
			if !e.await(e.live(), tm.deadline) {
				r.Res = "timeout"
			}
			lg.add(r)
		case "dispatch":
			lg.add(rec{T: "call", Op: "dispatch", I: i})
			r := rec{T: "ret", Op: "dispatch", I: i, Res: "fail"}
			if s := rt.current(); s != nil {
				r.Conn = s.idx
				r.Res = s.dispatch(tm.deadline)
			}
			lg.add(r)
		case "update":
			lg.add(rec{T: "call", Op: "update", I: i})
			r := rec{T: "ret", Op: "update", I: i, Res: "fail"}
			var uerr error
			ok := timed(tm.deadline, func() {
				_, uerr = st.UpdateContainers(nil)
			})
			switch {
			case !ok:
				r.Res = "timeout"
			case uerr == nil:
				r.Res = "ok"
			}
			lg.add(r)
		case "plant":
			// make the descriptor number the stub consumed refer to a socket of the harness
			lg.add(rec{T: "call", Op: "plant", I: i})
			r := rec{T: "ret", Op: "plant", I: i, Res: "failed"}
			var spare []int
			for j := 0; j < 64 && planted < 0 && envFd >= 0; j++ {
				fds, err := syscall.Socketpair(syscall.AF_UNIX, syscall.SOCK_STREAM|syscall.SOCK_CLOEXEC, 0)
				if err != nil {
					break
				}
				switch envFd {
				case fds[0]:
					planted, plantPeer = fds[0], fds[1]
				case fds[1]:
					planted, plantPeer = fds[1], fds[0]
				default:
					spare = append(spare, fds[0], fds[1])
				}
			}
			for _, fd := range spare {
				syscall.Close(fd)
			}
			if planted >= 0 {
				r.Res = "planted"
			}
			lg.add(r)
		case "pause":
			// lets pending close notifications run before the next call (Script.K microseconds)
			lg.add(rec{T: "call", Op: "pause", I: i})
			time.Sleep(time.Duration(op.Script.K) * time.Microsecond)
			lg.add(rec{T: "ret", Op: "pause", I: i, Res: "returned"})
		default:
			lg.add(rec{T: "ret", Op: op.Op, I: i, Res: "unknown-op"})
		}
	}
	if calHook != nil {
		calHook(rt)
	}
	end := rec{T: "end", Res: "complete"}
	if blocked {
		end.Res = "blocked"
	} else {
		// final clean-up, part of every history: Stop, then every close notification must
		// arrive and every Wait must have returned
		n := len(in.Ops)
		lg.add(rec{T: "call", Op: "stop", I: n})
		ok := timed(tm.deadline, func() { st.Stop() })
		r := rec{T: "ret", Op: "stop", I: n, Res: "returned"}
		if !ok {
			r.Res, end.Res = "blocked", "blocked"
		}
		lg.add(r)
		if ok {
			e.liveSid = 0
			lg.add(rec{T: "call", Op: "await", I: n + 1})
			r := rec{T: "ret", Op: "await", I: n + 1, Res: "all"}
			if !e.await(0, tm.deadline) {
				r.Res = "timeout"
			}
			lg.add(r)
			t0 := time.Now()
			for time.Since(t0) < tm.deadline {
				e.waitsMu.Lock()
				w := e.waits
				e.waitsMu.Unlock()
				if w == 0 {
					break
				}
				time.Sleep(2 * time.Millisecond)
			}
		}
	}
	e.waitsMu.Lock()
	end.WaitsLeft = e.waits
	e.waitsMu.Unlock()
	end.Clients = e.nclients()
	e.pl.mu.Lock()
	end.Calls = e.pl.calls
	e.pl.mu.Unlock()
	lg.add(end)
	return lg.snapshot()
}

// observedDown: the harness has itself seen that no session is up (last Start failed, or a
// Stop returned, or the close notification of the last established session completed).
func (e *executor) observedDown() bool {
	recs := e.log.snapshot()
	notified := map[int]bool{}
	for _, r := range recs {
		if r.T == "notify" {
			notified[r.Sid] = true
		}
	}
	up := 0 // sid of the last successful start not yet seen ended
	for _, r := range recs {
		switch {
		case r.T == "ret" && r.Op == "start" && r.Res == "ok":
			up = r.Sid
		case r.T == "ret" && r.Op == "stop" && r.Res == "returned":
			up = 0
		}
	}
	return up == 0 || notified[up]
}

// await waits until the close notification of every session except `live` has completed.
func (e *executor) await(live int, d time.Duration) bool {
	t0 := time.Now()
	for {
		e.mu.Lock()
		all := true
		for sid := 1; sid <= e.clients; sid++ {
			if sid != live && !e.notified[sid] {
				all = false
			}
		}
		e.mu.Unlock()
		if all {
			return true
		}
		if time.Since(t0) > d {
			return false
		}
		time.Sleep(time.Millisecond)
	}
}

// calHook, when set (calibration only), runs after the operations and before the clean-up.
var calHook func(*runtimeEnd)

var _ = fmt.Sprintf
