package c16

// The scripted runtime end: a unix-socket listener that speaks the runtime side of the NRI
// plugin protocol with the repository's own multiplexer, ttrpc and generated api
// client/server types (as pkg/adaptation/plugin.go does), over a fault-injecting trunk
// connection that can drop the connection after exactly k bytes in either direction.

import (
	"context"
	"encoding/binary"
	"errors"
	"net"
	"sync"
	"time"

	"github.com/containerd/nri/pkg/api"
	"github.com/containerd/nri/pkg/net/multiplex"
	"github.com/containerd/ttrpc"
)

// Script says what the runtime end does with ONE connection attempt of the stub.
type Script struct {
	// ok | refuse | refuseKeep | noAnswer | cut | cfgErr | dialFail | stall
	Kind string `json:"kind"`
	// cut only: direction ("r2p" = bytes written by the runtime end, "p2r" = bytes read by
	// it) and the byte count after which the runtime end closes the connection
	Dir string `json:"dir"`
	K   int    `json:"k"`
	// >0: Start is called with a context carrying this deadline (milliseconds)
	CtxMs int `json:"ctxms"`
	// number of pods/containers in the Synchronize request (varies the exchange length)
	Pods int `json:"pods"`
	// the plugin's Configure callback of this attempt takes this long (milliseconds)
	CfgDelayMs int `json:"cfgdelay"`
}

// frameParser follows one direction of the trunk byte stream and counts complete mux
// frames per connection id (header: 4-byte id, 4-byte length, big endian).
type frameParser struct {
	hdr    [8]byte
	nh     int
	remain int
	id     uint32
	frames [3]int // [0] other ids, [1] PluginServiceConn, [2] RuntimeServiceConn
	total  int   // bytes fed
	ends   []int // stream offset at which each frame was complete
}

func (p *frameParser) feed(b []byte) {
	for len(b) > 0 {
		if p.nh < 8 {
			n := copy(p.hdr[p.nh:], b)
			p.nh += n
			p.total += n
			b = b[n:]
			if p.nh < 8 {
				return
			}
			p.id = binary.BigEndian.Uint32(p.hdr[0:4])
			p.remain = int(binary.BigEndian.Uint32(p.hdr[4:8]))
			if p.remain == 0 {
				p.done()
			}
			continue
		}
		n := len(b)
		if n > p.remain {
			n = p.remain
		}
		p.remain -= n
		p.total += n
		b = b[n:]
		if p.remain == 0 {
			p.done()
		}
	}
}

func (p *frameParser) done() {
	i := int(p.id)
	if i < 1 || i > 2 {
		i = 0
	}
	p.frames[i]++
	p.ends = append(p.ends, p.total)
	p.nh = 0
}

// Facts: how far the exchange had got when the runtime end dropped the connection
// (complete frames written to / read from the plugin, per mux connection).
type Facts struct {
	Wr     int `json:"wr"`      // bytes written to the plugin
	Rd     int `json:"rd"`      // bytes read from the plugin
	WrRt   int `json:"wr_rt"`   // complete frames written on the runtime-service conn (RegisterPlugin reply, …)
	WrPlug int `json:"wr_plug"` // complete frames written on the plugin-service conn (Configure, Synchronize, … requests)
	RdRt   int `json:"rd_rt"`   // complete frames read on the runtime-service conn (RegisterPlugin request, …)
	RdPlug int `json:"rd_plug"` // complete frames read on the plugin-service conn (Configure, Synchronize replies, …)
}

var errCut = errors.New("c16: connection dropped by script")

// faultConn is the runtime end's trunk.
type faultConn struct {
	net.Conn
	mu     sync.Mutex
	cond   *sync.Cond
	dir    string
	k      int
	wr, rd int
	wp, rp frameParser
	closed bool
	onCut  func(Facts)
}

func newFaultConn(c net.Conn, dir string, k int, onCut func(Facts)) *faultConn {
	f := &faultConn{Conn: c, dir: dir, k: k, onCut: onCut}
	f.cond = sync.NewCond(&f.mu)
	return f
}

func (f *faultConn) factsLocked() Facts {
	return Facts{Wr: f.wr, Rd: f.rd, WrRt: f.wp.frames[2], WrPlug: f.wp.frames[1],
		RdRt: f.rp.frames[2], RdPlug: f.rp.frames[1]}
}

func (f *faultConn) facts() Facts {
	f.mu.Lock()
	defer f.mu.Unlock()
	return f.factsLocked()
}

// cutLocked closes the connection (the runtime end "drops" it). reports whether this call did it.
func (f *faultConn) cutLocked(report bool) bool {
	if f.closed {
		return false
	}
	f.closed = true
	facts := f.factsLocked()
	// recorded BEFORE the connection is closed: whatever the drop causes at the other end
	// comes later in the global order
	if report && f.onCut != nil {
		f.onCut(facts)
	}
	f.Conn.Close()
	f.cond.Broadcast()
	return true
}

// drop closes the connection now (the "lose" operation and the end of refuse scripts).
func (f *faultConn) drop(report bool) bool {
	f.mu.Lock()
	defer f.mu.Unlock()
	return f.cutLocked(report)
}

func (f *faultConn) isClosed() bool {
	f.mu.Lock()
	defer f.mu.Unlock()
	return f.closed
}

func (f *faultConn) Write(b []byte) (int, error) {
	f.mu.Lock()
	defer f.mu.Unlock()
	if f.closed {
		return 0, errCut
	}
	if f.dir == "r2p" && f.wr+len(b) >= f.k {
		n := f.k - f.wr
		if n < 0 {
			n = 0
		}
		m := 0
		if n > 0 {
			m, _ = f.Conn.Write(b[:n])
			f.wr += m
			f.wp.feed(b[:m])
		}
		f.cutLocked(true)
		if m == len(b) {
			return m, nil
		}
		return m, errCut
	}
	n, err := f.Conn.Write(b)
	f.wr += n
	f.wp.feed(b[:n])
	f.cond.Broadcast()
	return n, err
}

func (f *faultConn) Read(b []byte) (int, error) {
	f.mu.Lock()
	if f.closed {
		f.mu.Unlock()
		return 0, errCut
	}
	if f.dir == "p2r" {
		lim := f.k - f.rd
		if lim <= 0 {
			f.cutLocked(true)
			f.mu.Unlock()
			return 0, errCut
		}
		if len(b) > lim {
			b = b[:lim]
		}
	}
	f.mu.Unlock()
	n, err := f.Conn.Read(b) // blocking; not under the mutex
	f.mu.Lock()
	defer f.mu.Unlock()
	f.rd += n
	f.rp.feed(b[:n])
	if f.dir == "p2r" && f.rd >= f.k {
		f.cutLocked(true)
	}
	f.cond.Broadcast()
	return n, err
}

func (f *faultConn) Close() error {
	f.drop(false)
	return nil
}

// waitWritten blocks until at least n complete frames have been written on mux connection
// id, or the connection is closed, or the timeout passes.
func (f *faultConn) waitWritten(id, n int, d time.Duration) bool {
	deadline := time.Now().Add(d)
	t := time.AfterFunc(d, func() { f.mu.Lock(); f.cond.Broadcast(); f.mu.Unlock() })
	defer t.Stop()
	f.mu.Lock()
	defer f.mu.Unlock()
	for f.wp.frames[id] < n && !f.closed && time.Now().Before(deadline) {
		f.cond.Wait()
	}
	return f.wp.frames[id] >= n
}

// rtSession is the runtime end of one accepted connection.
type rtSession struct {
	rt     *runtimeEnd
	idx    int // 1-based accept order = connection number
	script Script
	fc     *faultConn
	mux    multiplex.Mux
	rpcc   *ttrpc.Client
	rpcs   *ttrpc.Server
	plugin api.PluginService
	doneC  chan struct{} // closed when the runtime end's ttrpc client sees the connection closed
	once   sync.Once
	mu     sync.Mutex
	stage  string // last completed handshake stage: "", registered, configured, synchronized, cfgfail, syncfail
	regs   int
	upds   int
}

func (s *rtSession) setStage(st string) { s.mu.Lock(); s.stage = st; s.mu.Unlock() }
func (s *rtSession) getStage() string   { s.mu.Lock(); defer s.mu.Unlock(); return s.stage }

// runtimeEnd accepts the stub's connections on a unix socket; each accepted connection takes
// the next script pushed by the harness's dialer (one per dial, in order).
type runtimeEnd struct {
	path     string
	l        net.Listener
	scripts  chan Script
	mu       sync.Mutex
	sessions []*rtSession
	log      *evlog
	wg       sync.WaitGroup
}

func newRuntimeEnd(path string, log *evlog) (*runtimeEnd, error) {
	l, err := net.Listen("unix", path)
	if err != nil {
		return nil, err
	}
	rt := &runtimeEnd{path: path, l: l, scripts: make(chan Script, 64), log: log}
	rt.wg.Add(1)
	go rt.acceptLoop()
	return rt, nil
}

func (rt *runtimeEnd) acceptLoop() {
	defer rt.wg.Done()
	for {
		c, err := rt.l.Accept()
		if err != nil {
			return
		}
		var sc Script
		select {
		case sc = <-rt.scripts:
		case <-time.After(2 * time.Second):
			sc = Script{Kind: "refuse"}
		}
		rt.serve(c, sc)
	}
}

func (rt *runtimeEnd) current() *rtSession {
	rt.mu.Lock()
	defer rt.mu.Unlock()
	if len(rt.sessions) == 0 {
		return nil
	}
	return rt.sessions[len(rt.sessions)-1]
}

func (rt *runtimeEnd) session(idx int) *rtSession {
	rt.mu.Lock()
	defer rt.mu.Unlock()
	if idx < 1 || idx > len(rt.sessions) {
		return nil
	}
	return rt.sessions[idx-1]
}

func (rt *runtimeEnd) nsessions() int {
	rt.mu.Lock()
	defer rt.mu.Unlock()
	return len(rt.sessions)
}

func (rt *runtimeEnd) serve(c net.Conn, sc Script) {
	s := &rtSession{rt: rt, script: sc, doneC: make(chan struct{})}
	rt.mu.Lock()
	s.idx = len(rt.sessions) + 1
	rt.sessions = append(rt.sessions, s)
	rt.mu.Unlock()
	dir, k := "", 0
	if sc.Kind == "cut" {
		dir, k = sc.Dir, sc.K
	}
	s.fc = newFaultConn(c, dir, k, func(f Facts) {
		rt.log.add(rec{T: "cut", Conn: s.idx, Facts: &f})
	})
	// as pkg/adaptation: reading stays blocked until both mux connections exist
	s.mux = multiplex.Multiplex(s.fc, multiplex.WithBlockedRead())
	pconn, err := s.mux.Open(multiplex.PluginServiceConn)
	if err != nil {
		s.fc.drop(false)
		return
	}
	s.rpcc = ttrpc.NewClient(pconn, ttrpc.WithOnClose(func() {
		s.once.Do(func() { close(s.doneC) })
	}))
	s.plugin = api.NewPluginClient(s.rpcc)
	s.rpcs, err = ttrpc.NewServer()
	if err != nil {
		s.fc.drop(false)
		return
	}
	rpcl, err := s.mux.Listen(multiplex.RuntimeServiceConn)
	if err != nil {
		s.fc.drop(false)
		return
	}
	api.RegisterRuntimeService(s.rpcs, s)
	go func() {
		s.rpcs.Serve(context.Background(), rpcl)
	}()
	s.mux.Unblock()
}

// shutdown releases everything the runtime end holds for this session.
func (s *rtSession) shutdown() {
	s.fc.drop(false)
	if s.rpcc != nil {
		s.rpcc.Close()
	}
	if s.rpcs != nil {
		s.rpcs.Close()
	}
	if s.mux != nil {
		s.mux.Close()
	}
}

// RegisterPlugin implements api.RuntimeService according to the session's script.
func (s *rtSession) RegisterPlugin(ctx context.Context, req *api.RegisterPluginRequest) (*api.Empty, error) {
	s.mu.Lock()
	s.regs++
	s.mu.Unlock()
	switch s.script.Kind {
	case "refuse", "refuseKeep":
		go func() {
			// let the refusal reach the wire, then (refuse) hang up as pkg/adaptation does
			s.fc.waitWritten(2, 1, time.Second)
			if s.script.Kind == "refuse" {
				s.fc.drop(false)
			}
		}()
		return nil, errors.New("registration refused by script")
	case "noAnswer":
		select {
		case <-s.doneC:
		case <-time.After(30 * time.Second):
		}
		return nil, errors.New("no answer")
	case "stall":
		s.setStage("registered")
		return &api.Empty{}, nil
	}
	go s.handshake()
	return &api.Empty{}, nil
}

func (s *rtSession) handshake() {
	// the registration reply goes out first (fixed order of messages on the trunk)
	if !s.fc.waitWritten(2, 1, 5*time.Second) {
		return
	}
	s.setStage("registered")
	ctx, cancel := context.WithTimeout(context.Background(), 5*time.Second)
	defer cancel()
	_, err := s.plugin.Configure(ctx, &api.ConfigureRequest{
		Config:              "cfg",
		RuntimeName:         "verif-rt",
		RuntimeVersion:      "v0",
		RegistrationTimeout: 5000,
		RequestTimeout:      2000,
	})
	if err != nil {
		s.setStage("cfgfail")
		// pkg/adaptation closes the plugin connection when configuration fails
		s.fc.drop(false)
		return
	}
	s.setStage("configured")
	req := &api.SynchronizeRequest{}
	for i := 0; i < s.script.Pods; i++ {
		id := string(rune('a' + i%26))
		req.Pods = append(req.Pods, &api.PodSandbox{Id: "pod-" + id, Name: "pod-" + id})
		req.Containers = append(req.Containers, &api.Container{Id: "ctr-" + id, PodSandboxId: "pod-" + id, Name: "ctr-" + id})
	}
	if _, err = s.plugin.Synchronize(ctx, req); err != nil {
		s.setStage("syncfail")
		s.fc.drop(false)
		return
	}
	s.setStage("synchronized")
}

func (s *rtSession) UpdateContainers(ctx context.Context, req *api.UpdateContainersRequest) (*api.UpdateContainersResponse, error) {
	s.mu.Lock()
	s.upds++
	s.mu.Unlock()
	return &api.UpdateContainersResponse{}, nil
}

// dispatch sends one CreateContainer request to the plugin over this session.
func (s *rtSession) dispatch(d time.Duration) string {
	ctx, cancel := context.WithTimeout(context.Background(), d)
	defer cancel()
	_, err := s.plugin.CreateContainer(ctx, &api.CreateContainerRequest{
		Pod:       &api.PodSandbox{Id: "pod-x", Name: "pod-x"},
		Container: &api.Container{Id: "ctr-x", PodSandboxId: "pod-x", Name: "ctr-x"},
	})
	if err == nil {
		return "ok"
	}
	if errors.Is(err, context.DeadlineExceeded) {
		return "timeout"
	}
	return "fail"
}

func (rt *runtimeEnd) close() {
	rt.l.Close()
	rt.mu.Lock()
	ss := append([]*rtSession(nil), rt.sessions...)
	rt.mu.Unlock()
	for _, s := range ss {
		s.shutdown()
	}
	rt.wg.Wait()
}
