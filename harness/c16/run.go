// Package c16 is the correspondence harness for property C16: starting, stopping and
// restarting the stub terminates and leaves it usable. It drives stub.New/Start/Stop/Wait/
// UpdateContainers (public API) against a scripted runtime end over a fault-injecting
// connection; every history runs in a re-exec'd worker subprocess and every call under a
// deadline, so a hang is an observation ("blocked", with the call named), not a harness
// failure.
package c16

import (
	"bufio"
	"bytes"
	"encoding/json"
	"fmt"
	"io"
	"math/rand"
	"os"
	"os/exec"
	"path/filepath"
	"strings"
	"sync"
	"time"

	"github.com/sirupsen/logrus"

	"verifh/internal/hx"
	"verifh/internal/lineio"
)

const workerEnv = "VERIFH_C16_WORKER"

type caseIn struct {
	ID string `json:"id"`
	In HistIn `json:"in"`
}

type histObs struct {
	Recs []rec `json:"recs"`
	// set by the parent when the worker process died or stopped making progress on this case
	Worker string `json:"worker"` // "" | crashed | hung
	Detail string `json:"detail"`
}

type caseOut struct {
	ID  string  `json:"id"`
	Obs histObs `json:"obs"`
}

// totals of the fault-free exchange through Synchronize (bytes per direction)
type totals struct {
	Wr, Rd int
	WrEnds []int // offsets (runtime end -> plugin) at which each frame was complete
}

func Run(o *hx.Opts, w *lineio.Writer) error {
	// the stub and ttrpc log every (expected) connection failure through logrus
	logrus.SetOutput(io.Discard)
	if bf := os.Getenv(workerEnv); bf != "" {
		return worker(bf, o)
	}
	var cases []caseIn
	if o.Replay != "" {
		rc, err := hx.ReplayCases(o.Replay)
		if err != nil {
			return err
		}
		for _, c := range rc {
			var in HistIn
			if err := json.Unmarshal(c.In, &in); err != nil {
				return fmt.Errorf("replay case %s: %w", c.ID, err)
			}
			cases = append(cases, caseIn{c.ID, in})
		}
	} else {
		tot := map[int]totals{}
		for _, pods := range []int{0, 3} {
			t, err := calibrate(o.Scratch, pods)
			if err != nil {
				return fmt.Errorf("calibration: %w", err)
			}
			tot[pods] = t
		}
		cases = generate(o, tot)
	}
	outs := runParallel(o, cases)
	for i, c := range cases {
		if err := w.Put(&lineio.Case{ID: c.ID, In: c.In, Obs: outs[i]}); err != nil {
			return err
		}
	}
	return nil
}

// ---------------------------------------------------------------- worker side

func worker(batch string, o *hx.Opts) error {
	data, err := os.ReadFile(batch)
	if err != nil {
		return err
	}
	out, err := os.Create(batch + ".out")
	if err != nil {
		return err
	}
	defer out.Close()
	dir := filepath.Dir(batch)
	sc := bufio.NewScanner(bytes.NewReader(data))
	sc.Buffer(make([]byte, 1<<20), 1<<28)
	n := 0
	for sc.Scan() {
		if len(sc.Bytes()) == 0 {
			continue
		}
		var c caseIn
		if err := json.Unmarshal(sc.Bytes(), &c); err != nil {
			return err
		}
		n++
		recs := runHistory(c.In, dir, fmt.Sprintf("h%d", n), defaultTiming)
		b, err := json.Marshal(caseOut{ID: c.ID, Obs: histObs{Recs: recs}})
		if err != nil {
			return err
		}
		out.Write(append(b, '\n')) // unbuffered: survives a crash in a later case
		os.Remove(filepath.Join(dir, fmt.Sprintf("h%d.sock", n)))
	}
	return sc.Err()
}

// ---------------------------------------------------------------- parent side

func runParallel(o *hx.Opts, cases []caseIn) []histObs {
	nw := 6 // workers mostly sleep on deadlines
	if len(cases) < nw {
		nw = 1
	}
	outs := make([]histObs, len(cases))
	var wg sync.WaitGroup
	// A stub created from NRI_PLUGIN_SOCKET keeps using a descriptor NUMBER it has closed
	// (and leaves an *os.File for it to the finalizer when that fails): such a history can
	// close descriptors that are not its own. Each gets a worker process of its own.
	var shared []int
	for i, c := range cases {
		if c.In.Src == "env" {
			wg.Add(1)
			go func(i int) {
				defer wg.Done()
				dir := filepath.Join(o.Scratch, fmt.Sprintf("e%d", i))
				if done, how, detail := runWorker(dir, cases, []int{i}, outs); done < 1 {
					outs[i] = histObs{Worker: how, Detail: detail}
				}
			}(i)
		} else {
			shared = append(shared, i)
		}
	}
	for wi := 0; wi < nw; wi++ {
		var idx []int
		for k := wi; k < len(shared); k += nw {
			idx = append(idx, shared[k])
		}
		if len(idx) == 0 {
			continue
		}
		wg.Add(1)
		go func(wi int, idx []int) {
			defer wg.Done()
			gen := 0
			for len(idx) > 0 {
				gen++
				dir := filepath.Join(o.Scratch, fmt.Sprintf("w%d.%d", wi, gen))
				done, how, detail := runWorker(dir, cases, idx, outs)
				if done >= len(idx) {
					break
				}
				// the worker died or hung on case idx[done]: that is the observation for it
				outs[idx[done]] = histObs{Worker: how, Detail: detail}
				idx = idx[done+1:]
			}
		}(wi, idx)
	}
	wg.Wait()
	return outs
}

// runWorker runs one worker process over cases[idx...]; returns how many results it
// delivered and, if fewer than asked, why it stopped.
func runWorker(dir string, cases []caseIn, idx []int, outs []histObs) (int, string, string) {
	if err := os.MkdirAll(dir, 0o755); err != nil {
		return 0, "crashed", err.Error()
	}
	batch := filepath.Join(dir, "b")
	var buf bytes.Buffer
	for _, i := range idx {
		b, _ := json.Marshal(cases[i])
		buf.Write(b)
		buf.WriteByte('\n')
	}
	if err := os.WriteFile(batch, buf.Bytes(), 0o644); err != nil {
		return 0, "crashed", err.Error()
	}
	cmd := exec.Command(os.Args[0], "C16", "-out", filepath.Join(dir, "o"))
	cmd.Env = append(os.Environ(), workerEnv+"="+batch, "GOMEMLIMIT=1GiB")
	var stderr bytes.Buffer
	cmd.Stdout = &stderr
	cmd.Stderr = &stderr
	if err := cmd.Start(); err != nil {
		return 0, "crashed", err.Error()
	}
	exited := make(chan error, 1)
	go func() { exited <- cmd.Wait() }()
	how := ""
	last, lastSize := time.Now(), int64(-1)
	tick := time.NewTicker(200 * time.Millisecond)
	defer tick.Stop()
loop:
	for {
		select {
		case err := <-exited:
			if err != nil {
				how = "crashed"
			}
			break loop
		case <-tick.C:
			sz := int64(0)
			if fi, err := os.Stat(batch + ".out"); err == nil {
				sz = fi.Size()
			}
			if sz != lastSize {
				last, lastSize = time.Now(), sz
			} else if time.Since(last) > 90*time.Second {
				// one history is at most a few deadlines long; no progress for this long
				// means the worker itself is stuck
				cmd.Process.Kill()
				<-exited
				how = "hung"
				break loop
			}
		}
	}
	n := 0
	if f, err := os.Open(batch + ".out"); err == nil {
		sc := bufio.NewScanner(f)
		sc.Buffer(make([]byte, 1<<20), 1<<28)
		for sc.Scan() && n < len(idx) {
			var c caseOut
			if json.Unmarshal(sc.Bytes(), &c) != nil {
				break
			}
			outs[idx[n]] = c.Obs
			n++
		}
		f.Close()
	}
	detail := ""
	if n < len(idx) {
		if how == "" {
			how = "crashed"
		}
		detail = firstPanicLine(stderr.String())
	}
	return n, how, detail
}

func firstPanicLine(s string) string {
	for _, l := range strings.Split(s, "\n") {
		if strings.HasPrefix(l, "panic:") || strings.HasPrefix(l, "fatal error:") {
			return l
		}
	}
	ls := strings.Split(strings.TrimSpace(s), "\n")
	if len(ls) > 0 {
		l := ls[len(ls)-1]
		if len(l) > 200 {
			l = l[:200]
		}
		return l
	}
	return ""
}

// calibrate measures the fault-free exchange (connect, register, configure, synchronize).
func calibrate(scratch string, pods int) (totals, error) {
	in := HistIn{Kind: "hist", Ops: []Op{{Op: "start", Script: Script{Kind: "ok", Pods: pods}}}}
	var t totals
	lg := newLog()
	_ = lg
	dir := filepath.Join(scratch, "cal")
	if err := os.MkdirAll(dir, 0o755); err != nil {
		return t, err
	}
	var got *Facts
	calHook = func(rt *runtimeEnd) {
		s := rt.current()
		if s == nil {
			return
		}
		for i := 0; i < 3000 && s.getStage() != "synchronized"; i++ {
			time.Sleep(time.Millisecond)
		}
		if s.getStage() == "synchronized" {
			f := s.fc.facts()
			got = &f
			s.fc.mu.Lock()
			t.WrEnds = append([]int(nil), s.fc.wp.ends...)
			s.fc.mu.Unlock()
		}
	}
	defer func() { calHook = nil }()
	recs := runHistory(in, dir, fmt.Sprintf("c%d", pods), defaultTiming)
	os.Remove(filepath.Join(dir, fmt.Sprintf("c%d.sock", pods)))
	if got == nil {
		b, _ := json.Marshal(recs)
		return t, fmt.Errorf("fault-free handshake did not complete: %s", b)
	}
	t.Wr, t.Rd = got.Wr, got.Rd
	return t, nil
}

// ---------------------------------------------------------------- generators

func start(kind string) Op { return Op{Op: "start", Script: Script{Kind: kind}} }
func cut(dir string, k, pods int) Op {
	return Op{Op: "start", Script: Script{Kind: "cut", Dir: dir, K: k, Pods: pods}}
}
func op(name string) Op { return Op{Op: name} }

// the three restart patterns after a first operation sequence xs
func pattern(p byte, xs ...Op) []Op {
	var tail []Op
	switch p {
	case 'A': // let every close notification arrive, then restart
		tail = []Op{op("await"), op("wait"), start("ok"), op("dispatch"), op("update"), op("stop"), op("wait")}
	case 'B': // restart at once: the earlier session's close notification may still be in flight
		tail = []Op{start("ok"), op("dispatch"), op("await"), op("dispatch"), op("update"), op("stop"), op("wait")}
	case 'C': // stop, then restart at once
		tail = []Op{op("stop"), start("ok"), op("await"), op("dispatch"), op("update"), op("stop"), op("wait")}
	}
	return append(append([]Op{}, xs...), tail...)
}

func generate(o *hx.Opts, tot map[int]totals) []caseIn {
	var cs []caseIn
	addSrc := func(id, stream string, excluded bool, src string, ops []Op) {
		cs = append(cs, caseIn{ID: id, In: HistIn{Kind: "hist", Ops: ops, Excluded: excluded, Stream: stream, Src: src}})
	}
	add := func(id, stream string, excluded bool, ops []Op) { addSrc(id, stream, excluded, "dialer", ops) }
	pats := []byte{'A', 'B', 'C'}

	// S1: every byte offset of the connect/register/configure/synchronize exchange (and a
	// little beyond, into the first request), both directions
	for _, dir := range []string{"r2p", "p2r"} {
		t := tot[0]
		n := t.Wr
		if dir == "p2r" {
			n = t.Rd
		}
		for k := 0; k <= n+24; k++ {
			if o.Thorough() {
				for _, p := range pats {
					add(fmt.Sprintf("cut-%s-%d-%c", dir, k, p), "offsets", false, pattern(p, cut(dir, k, 0)))
				}
			} else {
				p := pats[k%3]
				add(fmt.Sprintf("cut-%s-%d-%c", dir, k, p), "offsets", false, pattern(p, cut(dir, k, 0)))
				if p != 'A' && k%2 == 0 {
					add(fmt.Sprintf("cut-%s-%d-A", dir, k), "offsets", false, pattern('A', cut(dir, k, 0)))
				}
			}
		}
		if o.Thorough() {
			t := tot[3]
			n := t.Wr
			if dir == "p2r" {
				n = t.Rd
			}
			for k := 0; k <= n+24; k++ {
				p := pats[k%3]
				add(fmt.Sprintf("cut3-%s-%d-%c", dir, k, p), "offsets", false, pattern(p, cut(dir, k, 3)))
			}
		}
	}

	// S2: every kind of first attempt x every restart pattern, plus restart chains
	firsts := map[string][]Op{
		"ok":         {start("ok")},
		"ok-lose":    {start("ok"), op("lose")},
		"ok-disp":    {start("ok"), op("dispatch"), op("update")},
		"refuse":     {start("refuse")},
		"refuseKeep": {start("refuseKeep")},
		"cfgErr":     {start("cfgErr")},
		"dialFail":   {start("dialFail")},
		"noAnswer":   {{Op: "start", Script: Script{Kind: "noAnswer", CtxMs: 250}}},
		"twice":      {start("ok"), start("ok")},
		"fail-fail":  {start("refuse"), start("cfgErr"), start("dialFail")},
		"wait-first": {op("wait"), op("stop")},
	}
	names := []string{"ok", "ok-lose", "ok-disp", "refuse", "refuseKeep", "cfgErr", "dialFail", "noAnswer", "twice", "fail-fail", "wait-first"}
	reps := o.N(3, 12)
	for rep := 0; rep < reps; rep++ {
		for _, nm := range names {
			for _, p := range pats {
				add(fmt.Sprintf("first-%s-%c-%d", nm, p, rep), "kinds", false, pattern(p, firsts[nm]...))
			}
		}
	}
	// restart chains: n sessions back to back, each stopped or lost
	for rep := 0; rep < o.N(6, 100); rep++ {
		for n := 2; n <= 5; n++ {
			var ops []Op
			for i := 0; i < n; i++ {
				ops = append(ops, start("ok"), op("dispatch"))
				if (i+rep)%2 == 0 {
					ops = append(ops, op("stop"))
				} else {
					ops = append(ops, op("lose"), op("await"))
				}
			}
			ops = append(ops, start("ok"), op("await"), op("dispatch"), op("update"))
			add(fmt.Sprintf("chain-%d-%d", n, rep), "chains", false, ops)
		}
	}
	// a Configure callback still running when its connection is dropped and the next Start
	// begins: its late result belongs to the OLD attempt
	if ends := tot[0].WrEnds; len(ends) >= 2 {
		for rep := 0; rep < o.N(8, 40); rep++ {
			first := Op{Op: "start", Script: Script{Kind: "cut", Dir: "r2p", K: ends[1], CfgDelayMs: 20 + 10*(rep%3)}}
			second := Op{Op: "start", Script: Script{Kind: "ok", CfgDelayMs: 120}}
			add(fmt.Sprintf("stalecfg-%d", rep), "stalecfg", false,
				[]Op{first, second, op("dispatch"), op("await"), op("dispatch"), op("stop"), op("wait")})
		}
	}
	// the default registration timeout (5 s) with a runtime end that never answers
	if o.Thorough() || o.Budget <= 1 {
		add("noanswer-default-timeout", "kinds", false, pattern('A', start("noAnswer")))
	}

	// S3: random histories
	r := o.Rand(16)
	t0 := tot[0]
	for i := 0; i < o.N(250, 12000); i++ {
		add(fmt.Sprintf("rand-%d", i), "random", false, randomHistory(r, t0))
	}

	// S4: a stub that was handed its first connection (stub.WithConnection): that one is used
	// without a dial, by whatever the first Start is; afterwards the stub dials like any other
	for rep := 0; rep < o.N(2, 10); rep++ {
		for _, nm := range []string{"ok", "ok-lose", "refuse", "cfgErr", "dialFail", "twice", "wait-first"} {
			for _, p := range pats {
				addSrc(fmt.Sprintf("given-%s-%c-%d", nm, p, rep), "given", false, "given", pattern(p, firsts[nm]...))
			}
		}
		t := tot[0]
		for _, k := range []int{0, 17, 18, 30, t.Wr - 1, t.Wr + 5} {
			addSrc(fmt.Sprintf("given-cut-%d-%d", k, rep), "given", false, "given", pattern(pats[(k+rep)%3], cut("r2p", k, 0)))
		}
	}
	for i := 0; i < o.N(40, 1500); i++ {
		addSrc(fmt.Sprintf("given-rand-%d", i), "given", false, "given", randomHistory(r, t0))
	}

	// excluded: a stub created from NRI_PLUGIN_SOCKET (how the runtime launches pre-installed
	// plugins) has no way to get a fresh connection: single-shot. Recorded, correspondence only.
	addSrc("env-stop-restart", "excluded-env", true, "env",
		[]Op{start("ok"), op("dispatch"), op("update"), op("stop"), op("wait"), start("ok"), op("dispatch"), op("wait")})
	addSrc("env-lose-restart", "excluded-env", true, "env",
		[]Op{start("ok"), op("wait"), op("lose"), op("await"), start("ok"), start("refuse")})
	addSrc("env-failed-first", "excluded-env", true, "env",
		[]Op{start("cfgErr"), op("await"), start("ok"), op("dispatch")})
	// … and if the process has reused the descriptor number meanwhile, the second Start takes
	// a socket that is not the stub's into use, gets no answer, and closes it
	addSrc("env-fd-reused", "excluded-env", true, "env",
		[]Op{start("ok"), op("stop"), op("await"), op("plant"), start("ok"), op("dispatch")})

	// excluded: the runtime end registers the plugin, then neither configures it nor hangs
	// up. Outside the property's list of runtime behaviours; recorded, correspondence only.
	add("stall-0", "excluded", true, []Op{start("stall")})
	if o.Thorough() {
		add("stall-1", "excluded", true, []Op{start("ok"), op("stop"), start("stall")})
	}
	return cs
}

func randomHistory(r *rand.Rand, t totals) []Op {
	n := 3 + r.Intn(11)
	var ops []Op
	waits := 0
	for len(ops) < n {
		x := r.Intn(100)
		switch {
		case x < 36:
			ops = append(ops, randomStart(r, t))
		case x < 50:
			ops = append(ops, op("stop"))
		case x < 60:
			if waits < 2 {
				waits++
				ops = append(ops, op("wait"))
			}
		case x < 70:
			ops = append(ops, op("lose"))
		case x < 76:
			ops = append(ops, op("await"))
		case x < 80:
			ops = append(ops, Op{Op: "pause", Script: Script{K: []int{0, 20, 200, 2000}[r.Intn(4)]}})
		case x < 92:
			ops = append(ops, op("dispatch"))
		default:
			ops = append(ops, op("update"))
		}
	}
	return ops
}

func randomStart(r *rand.Rand, t totals) Op {
	x := r.Intn(100)
	switch {
	case x < 45:
		return start("ok")
	case x < 70:
		if r.Intn(2) == 0 {
			return cut("r2p", r.Intn(t.Wr+30), 0)
		}
		return cut("p2r", r.Intn(t.Rd+30), 0)
	case x < 78:
		return start("refuse")
	case x < 82:
		return start("refuseKeep")
	case x < 90:
		return start("cfgErr")
	case x < 98:
		return start("dialFail")
	default:
		return Op{Op: "start", Script: Script{Kind: "noAnswer", CtxMs: 200}}
	}
}
