// Package c16 is the correspondence harness for property C16 (placeholder).
package c16

import (
	"errors"

	"verifh/internal/hx"
	"verifh/internal/lineio"
)

func Run(o *hx.Opts, w *lineio.Writer) error {
	return errors.New("C16 harness not implemented")
}
