// Package lineio writes the harness side of the line protocol: one JSON object per line,
// {"id":…, "in":…, "obs":…, "tags":[…]}; plus "direct" verdict lines for observations the
// Lean driver cannot judge (wall-clock, hangs, crashes) which pass through the driver.
package lineio

import (
	"bufio"
	"encoding/json"
	"fmt"
	"os"
	"sync"
)

type Case struct {
	ID   string      `json:"id"`
	In   interface{} `json:"in"`
	Obs  interface{} `json:"obs"`
	Tags []string    `json:"tags,omitempty"`
}

type Writer struct {
	mu sync.Mutex
	f  *os.File
	w  *bufio.Writer
	n  int
}

func Create(path string) (*Writer, error) {
	f, err := os.Create(path)
	if err != nil {
		return nil, err
	}
	return &Writer{f: f, w: bufio.NewWriterSize(f, 1<<20)}, nil
}

func (w *Writer) Put(c *Case) error {
	b, err := json.Marshal(c)
	if err != nil {
		return fmt.Errorf("case %s: %w", c.ID, err)
	}
	w.mu.Lock()
	defer w.mu.Unlock()
	w.n++
	w.w.Write(b)
	return w.w.WriteByte('\n')
}

func (w *Writer) Count() int { w.mu.Lock(); defer w.mu.Unlock(); return w.n }

func (w *Writer) Close() error {
	w.mu.Lock()
	defer w.mu.Unlock()
	if err := w.w.Flush(); err != nil {
		return err
	}
	return w.f.Close()
}
