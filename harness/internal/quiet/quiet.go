// Package quiet silences nri's logging in harness processes (import for side effect).
package quiet

import (
	"context"
	"io"

	nrilog "github.com/containerd/nri/pkg/log"
	"github.com/sirupsen/logrus"
)

type nop struct{}

func (nop) Debugf(context.Context, string, ...interface{}) {}
func (nop) Infof(context.Context, string, ...interface{})  {}
func (nop) Warnf(context.Context, string, ...interface{})  {}
func (nop) Errorf(context.Context, string, ...interface{}) {}

func init() {
	nrilog.Set(nop{})
	logrus.SetOutput(io.Discard)
}
