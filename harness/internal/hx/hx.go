// Package hx holds what every property harness shares: options, the seeded PRNG, replay
// file reading.
package hx

import (
	"bufio"
	"encoding/json"
	"math/rand"
	"os"

	"verifh/internal/lineio"
)

type Opts struct {
	Tier    string // quick | thorough
	Seed    int64
	Replay  string // path of a replay file (case lines); "" = generate
	Scratch string // per-run scratch directory (removed by bin/check)
	Budget  int    // multiplier applied by the failing-input search (1 = normal)
}

func (o *Opts) Thorough() bool { return o.Tier == "thorough" }

// N picks the case count for the tier, scaled by the search budget.
func (o *Opts) N(quick, thorough int) int {
	n := quick
	if o.Thorough() {
		n = thorough
	}
	if o.Budget > 1 {
		n *= o.Budget
	}
	return n
}

// Rand derives an independent stream from the run seed; every random choice of a run
// comes from the one seed, so a case replays exactly.
func (o *Opts) Rand(stream int64) *rand.Rand {
	return rand.New(rand.NewSource(o.Seed*1000003 + stream))
}

type RunFn func(o *Opts, w *lineio.Writer) error

// ReplayCases reads the "in" parts of the case lines of a replay file.
func ReplayCases(path string) ([]struct {
	ID string
	In json.RawMessage
}, error) {
	f, err := os.Open(path)
	if err != nil {
		return nil, err
	}
	defer f.Close()
	var out []struct {
		ID string
		In json.RawMessage
	}
	sc := bufio.NewScanner(f)
	sc.Buffer(make([]byte, 1<<20), 1<<30)
	for sc.Scan() {
		var c struct {
			ID string          `json:"id"`
			In json.RawMessage `json:"in"`
		}
		if len(sc.Bytes()) == 0 {
			continue
		}
		if err := json.Unmarshal(sc.Bytes(), &c); err != nil {
			return nil, err
		}
		if c.In == nil {
			continue
		}
		out = append(out, struct {
			ID string
			In json.RawMessage
		}{c.ID, c.In})
	}
	return out, sc.Err()
}
