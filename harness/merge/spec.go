package merge

import (
	"encoding/json"
	"fmt"
	"os"
	"sort"
	"strings"

	rspec "github.com/opencontainers/runtime-spec/specs-go"
	rgen "github.com/opencontainers/runtime-tools/generate"

	"github.com/containerd/nri/pkg/api"
	"github.com/containerd/nri/pkg/runtime-tools/generate"
)

// SpecFromContainer builds the OCI spec a runtime would hold for the original container
// (the NRI container of a creation request is derived from it).
func SpecFromContainer(c *JContainer) *rspec.Spec {
	s := &rspec.Spec{
		Version:     "1.1.0",
		Process:     &rspec.Process{Args: append([]string{}, c.Args...), Env: append([]string{}, c.Env...)},
		Annotations: map[string]string{},
		Linux:       &rspec.Linux{CgroupsPath: c.CgroupsPath, Resources: &rspec.LinuxResources{}},
	}
	for _, kv := range c.Annotations {
		s.Annotations[kv[0]] = kv[1]
	}
	if c.OomScoreAdj != nil {
		v := int(*c.OomScoreAdj)
		s.Process.OOMScoreAdj = &v
	}
	for _, l := range c.Rlimits {
		s.Process.Rlimits = append(s.Process.Rlimits, rspec.POSIXRlimit{Type: l.Type, Hard: l.Hard, Soft: l.Soft})
	}
	for _, m := range c.Mounts {
		s.Mounts = append(s.Mounts, rspec.Mount{Destination: m.Destination, Type: m.Type, Source: m.Source, Options: append([]string{}, m.Options...)})
	}
	hooks := ToHooks(c.Hooks)
	s.Hooks = &rspec.Hooks{}
	for _, h := range hooks.Prestart {
		s.Hooks.Prestart = append(s.Hooks.Prestart, h.ToOCI())
	}
	for _, h := range hooks.CreateRuntime {
		s.Hooks.CreateRuntime = append(s.Hooks.CreateRuntime, h.ToOCI())
	}
	for _, h := range hooks.CreateContainer {
		s.Hooks.CreateContainer = append(s.Hooks.CreateContainer, h.ToOCI())
	}
	for _, h := range hooks.StartContainer {
		s.Hooks.StartContainer = append(s.Hooks.StartContainer, h.ToOCI())
	}
	for _, h := range hooks.Poststart {
		s.Hooks.Poststart = append(s.Hooks.Poststart, h.ToOCI())
	}
	for _, h := range hooks.Poststop {
		s.Hooks.Poststop = append(s.Hooks.Poststop, h.ToOCI())
	}
	for _, d := range ToDevices(c.Devices) {
		s.Linux.Devices = append(s.Linux.Devices, d.ToOCI())
		major, minor := d.Major, d.Minor
		s.Linux.Resources.Devices = append(s.Linux.Resources.Devices,
			rspec.LinuxDeviceCgroup{Allow: true, Type: d.Type, Major: &major, Minor: &minor, Access: d.AccessString()})
	}
	if r := ToResources(&c.Resources, true); r != nil {
		o := r.ToOCI()
		o.Devices = s.Linux.Resources.Devices
		s.Linux.Resources = o
	}
	return s
}

// cdiLog records the CDI device names the runtime's injector is asked for (the injector is
// runtime-specific; here it appends them to an annotation so they are part of the spec).
func cdiInjector(s *rspec.Spec, names []string) error {
	if s.Annotations == nil {
		s.Annotations = map[string]string{}
	}
	for _, n := range names {
		s.Annotations["verif.cdi"] += n + ";"
	}
	return nil
}

func resolveBlockIO(class string) (*rspec.LinuxBlockIO, error) {
	w := uint16(len(class))
	return &rspec.LinuxBlockIO{Weight: &w, WeightDevice: []rspec.LinuxWeightDevice{}}, nil
}

func resolveRdt(class string) (*rspec.LinuxIntelRdt, error) {
	return &rspec.LinuxIntelRdt{ClosID: class}, nil
}

// ApplyAdjustment applies one adjustment with the repository's own generator.
func ApplyAdjustment(s *rspec.Spec, a *api.ContainerAdjustment) error {
	g := generate.SpecGenerator(&rgen.Generator{Config: s},
		generate.WithCDIDeviceInjector(cdiInjector),
		generate.WithBlockIOResolver(resolveBlockIO),
		generate.WithRdtResolver(resolveRdt))
	return g.Adjust(a)
}

func cloneSpec(s *rspec.Spec) *rspec.Spec {
	b, _ := json.Marshal(s)
	var o rspec.Spec
	json.Unmarshal(b, &o)
	return &o
}

// SpecFamilies renders a spec family by family into canonical strings (maps sorted).
type SpecFamilies struct {
	Annotations string   `json:"annotations"`
	Args        string   `json:"args"`
	EnvOrdered  string   `json:"envOrdered"`
	EnvSorted   string   `json:"envSorted"`
	Mounts      string   `json:"mounts"`
	Hooks       string   `json:"hooks"`
	Rlimits     string   `json:"rlimits"`
	Devices     string   `json:"devices"`
	DevRules    []string `json:"devRules"`
	// StaleUnexplained (sequential side only): rules the sequential spec has and the combined one
	// lacks that do NOT belong to a device some plugin added and a later plugin removed or
	// replaced - the only stale rules the recorded known finding is about.
	StaleUnexplained []string `json:"staleUnexplained"`
	Resources        string   `json:"resources"`
	BlockIO          string   `json:"blockio"`
	Rdt              string   `json:"rdt"`
	CgroupsPath      string   `json:"cgroupsPath"`
	OomScoreAdj      string   `json:"oomScoreAdj"`
	Rest             string   `json:"rest"`
}

// js renders canonically: a nil map/slice and an empty one are the same thing to every reader
// of an OCI spec, so "null" is rendered as the empty collection of the caller's choosing.
func js(v interface{}) string {
	b, _ := json.Marshal(v)
	return string(b)
}

// prune drops null / {} / [] members recursively (nil and empty sections are the same thing)
func prune(v interface{}) interface{} {
	switch t := v.(type) {
	case map[string]interface{}:
		for k, x := range t {
			x = prune(x)
			if x == nil {
				delete(t, k)
			} else {
				t[k] = x
			}
		}
		if len(t) == 0 {
			return nil
		}
		return t
	case []interface{}:
		if len(t) == 0 {
			return nil
		}
		for i := range t {
			t[i] = prune(t[i])
		}
		return t
	}
	return v
}

func jsPruned(v interface{}) string {
	b, _ := json.Marshal(v)
	var x interface{}
	if err := json.Unmarshal(b, &x); err != nil {
		return string(b)
	}
	x = prune(x)
	if x == nil {
		return "{}"
	}
	b, _ = json.Marshal(x)
	return string(b)
}

func jsOr(v interface{}, empty string) string {
	s := js(v)
	if s == "null" {
		return empty
	}
	return s
}

func Families(s *rspec.Spec) SpecFamilies {
	f := SpecFamilies{DevRules: []string{}}
	f.Annotations = jsOr(s.Annotations, "{}") // encoding/json sorts map keys
	if s.Process != nil {
		f.Args = jsOr(s.Process.Args, "[]")
		f.EnvOrdered = jsOr(s.Process.Env, "[]")
		e := append([]string{}, s.Process.Env...)
		sort.Strings(e)
		f.EnvSorted = jsOr(e, "[]")
		f.Rlimits = jsOr(s.Process.Rlimits, "[]")
		f.OomScoreAdj = js(s.Process.OOMScoreAdj)
	}
	f.Mounts = jsOr(s.Mounts, "[]")
	f.Hooks = jsPruned(s.Hooks)
	if s.Linux != nil {
		f.Devices = jsOr(s.Linux.Devices, "[]")
		f.CgroupsPath = s.Linux.CgroupsPath
		f.Rdt = jsPruned(s.Linux.IntelRdt)
		if r := s.Linux.Resources; r != nil {
			for _, d := range r.Devices {
				f.DevRules = append(f.DevRules, js(d))
			}
			f.BlockIO = jsPruned(r.BlockIO)
			c := *r
			c.Devices = nil
			c.BlockIO = nil
			f.Resources = jsPruned(c)
		}
		f.Rest = s.Linux.RootfsPropagation
	}
	return f
}

// CombinedVsSequential applies (a) the combined adjustment returned to the runtime and
// (b) every plugin's own adjustment in plugin order, both to the spec of the original
// container, with the real generator.
func CombinedVsSequential(in *CaseIn, combined *api.ContainerAdjustment) (comb, seq *SpecFamilies, err error) {
	base := SpecFromContainer(&in.Container)
	a := cloneSpec(base)
	if e := ApplyAdjustment(a, combined); e != nil {
		return nil, nil, fmt.Errorf("combined: %w", e)
	}
	b := cloneSpec(base)
	for i := range in.Plugins {
		if in.Plugins[i].Adjust == nil {
			continue
		}
		if e := ApplyAdjustment(b, ToAdjust(in.Plugins[i].Adjust)); e != nil {
			return nil, nil, fmt.Errorf("sequential %s: %w", in.Plugins[i].Name, e)
		}
	}
	fa, fb := Families(a), Families(b)
	// which allow rules may legitimately be stale in the sequential spec
	explained := map[string]bool{}
	for i := range in.Plugins {
		if in.Plugins[i].Adjust == nil {
			continue
		}
		for _, d := range ToDevices(in.Plugins[i].Adjust.Devices) {
			if strings.HasPrefix(d.Path, "-") {
				continue
			}
			later := false
			for j := i + 1; j < len(in.Plugins) && !later; j++ {
				if in.Plugins[j].Adjust == nil {
					continue
				}
				for _, e := range in.Plugins[j].Adjust.Devices {
					if e.Path == d.Path || e.Path == "-"+d.Path {
						later = true
					}
				}
			}
			if later {
				major, minor := d.Major, d.Minor
				explained[js(rspec.LinuxDeviceCgroup{Allow: true, Type: d.Type, Major: &major, Minor: &minor, Access: d.AccessString()})] = true
			}
		}
	}
	have := map[string]bool{}
	for _, r := range fa.DevRules {
		have[r] = true
	}
	fb.StaleUnexplained = []string{}
	for _, r := range fb.DevRules {
		if !have[r] && !explained[r] {
			fb.StaleUnexplained = append(fb.StaleUnexplained, r)
		}
	}
	return &fa, &fb, nil
}

var _ = os.Getenv
