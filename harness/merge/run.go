package merge

import (
	"encoding/json"
	"fmt"
	"runtime"
	"sync"

	"verifh/internal/hx"
	"verifh/internal/lineio"
)

type job struct {
	id   string
	in   CaseIn
	twin bool
}

// Run generates (or replays) cases, executes them on a pool of rigs and writes case lines.
// `prop` only selects the PRNG stream, so the five properties explore different random cases.
func Run(o *hx.Opts, w *lineio.Writer, prop int) error {
	var jobs []job
	if o.Replay != "" {
		cases, err := hx.ReplayCases(o.Replay)
		if err != nil {
			return err
		}
		for _, c := range cases {
			var in CaseIn
			if err := json.Unmarshal(c.In, &in); err != nil {
				return fmt.Errorf("replay %s: %w", c.ID, err)
			}
			fixInst(&in)
			jobs = append(jobs, job{c.ID, in, in.Stream == "twins"})
		}
	} else {
		if o.Budget <= 1 {
			for _, s := range Systematic() {
				jobs = append(jobs, job{s.id, s.in, false})
			}
			if prop <= 2 {
				for _, s := range Twins() {
					jobs = append(jobs, job{s.id, s.in, true})
				}
			}
		}
		g := &Gen{R: o.Rand(int64(100 + prop))}
		for i := 0; i < o.N(4000, 150000); i++ {
			id, in := g.Random(i)
			if prop == 3 && in.Kind != "create" {
				continue // C03 speaks about creation requests only
			}
			jobs = append(jobs, job{id, in, false})
		}
		for i := 0; i < o.N(350, 7000); i++ {
			id, in := g.Malformed(i)
			jobs = append(jobs, job{id, in, false})
		}
		if prop == 1 || prop == 2 || prop == 5 {
			// builder stream: plugins given programs of pkg/api helper calls (builder.go)
			for _, s := range BuilderJobs(o.Rand(int64(200+prop)), o.Budget <= 1, o.N(1500, 40000)) {
				jobs = append(jobs, job{s.id, s.in, false})
			}
		}
	}
	nrig := runtime.NumCPU() / 2
	if nrig < 1 {
		nrig = 1
	}
	if nrig > len(jobs) {
		nrig = len(jobs)
	}
	if nrig == 0 {
		return nil
	}
	var twinRig *Rig
	for _, j := range jobs {
		if j.twin {
			t, err := NewRig(o.Scratch, 99, TwinNames)
			if err != nil {
				return fmt.Errorf("twin rig: %w", err)
			}
			twinRig = t
			defer t.Close()
			break
		}
	}
	rigs := make([]*Rig, nrig)
	for i := range rigs {
		r, err := NewRig(o.Scratch, i, StdNames())
		if err != nil {
			return fmt.Errorf("rig %d: %w", i, err)
		}
		r.WithSpec = prop == 3
		rigs[i] = r
		defer r.Close()
	}
	// results are written in job order so that a run is reproducible line by line
	results := make([]*lineio.Case, len(jobs))
	var wg sync.WaitGroup
	var firstErr error
	var emu sync.Mutex
	ch := make(chan int, len(jobs))
	for i := range jobs {
		ch <- i
	}
	close(ch)
	for _, r := range rigs {
		wg.Add(1)
		go func(r *Rig) {
			defer wg.Done()
			for i := range ch {
				in := jobs[i].in
				if jobs[i].twin {
					continue // run on the twins rig below
				}
				in.Container.Rest = FromContainer(ToContainer(&in.Container, false)).Rest
				obs, err := r.RunCase(&in)
				if err != nil {
					emu.Lock()
					if firstErr == nil {
						firstErr = fmt.Errorf("case %s: %w", jobs[i].id, err)
					}
					emu.Unlock()
					continue
				}
				results[i] = &lineio.Case{ID: jobs[i].id, In: in, Obs: obs}
			}
		}(r)
	}
	wg.Wait()
	for i := range jobs {
		if !jobs[i].twin {
			continue
		}
		in := jobs[i].in
		in.Container.Rest = FromContainer(ToContainer(&in.Container, false)).Rest
		obs, err := twinRig.RunCase(&in)
		if err != nil {
			return fmt.Errorf("case %s: %w", jobs[i].id, err)
		}
		results[i] = &lineio.Case{ID: jobs[i].id, In: in, Obs: obs}
	}
	for _, c := range results {
		if c != nil {
			if err := w.Put(c); err != nil {
				return err
			}
		}
	}
	return firstErr
}

// fixInst fills in plugin instance numbers for inputs recorded before the field existed
// (all zero): the n-th plugin of the input named X is the n-th instance named X of the rig.
func fixInst(in *CaseIn) {
	if len(in.Plugins) < 2 {
		return
	}
	for _, p := range in.Plugins {
		if p.Inst != 0 {
			return
		}
	}
	names := StdNames()
	if in.Stream == "twins" {
		names = TwinNames
	}
	used := map[int]bool{}
	for i := range in.Plugins {
		for j, n := range names {
			if n == in.Plugins[i].Name && !used[j] {
				in.Plugins[i].Inst = j
				used[j] = true
				break
			}
		}
	}
}
