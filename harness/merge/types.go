// Package merge is the correspondence harness shared by C01–C05: it drives
// Adaptation.CreateContainer / UpdateContainer / StopContainer through real stub plugins
// connected over a real unix socket and records the reply handed to the runtime, the
// container / resources each plugin was shown, and the error, in the explicit JSON form the
// Lean driver decodes (every field emitted, maps as sorted key/value pair lists).
package merge

import (
	"sort"

	"github.com/containerd/nri/pkg/api"
)

type JMount struct {
	Destination string   `json:"destination"`
	Type        string   `json:"type"`
	Source      string   `json:"source"`
	Options     []string `json:"options"`
}

type JHook struct {
	Path    string   `json:"path"`
	Args    []string `json:"args"`
	Env     []string `json:"env"`
	Timeout *int64   `json:"timeout"`
}

type JHooks struct {
	Prestart        []JHook `json:"prestart"`
	CreateRuntime   []JHook `json:"createRuntime"`
	CreateContainer []JHook `json:"createContainer"`
	StartContainer  []JHook `json:"startContainer"`
	Poststart       []JHook `json:"poststart"`
	Poststop        []JHook `json:"poststop"`
}

type JDevice struct {
	Path     string  `json:"path"`
	Type     string  `json:"type"`
	Major    int64   `json:"major"`
	Minor    int64   `json:"minor"`
	FileMode *uint32 `json:"fileMode"`
	Uid      *uint32 `json:"uid"`
	Gid      *uint32 `json:"gid"`
}

type JKV struct {
	Key   string `json:"key"`
	Value string `json:"value"`
}

type JRlimit struct {
	Type string `json:"type"`
	Hard uint64 `json:"hard"`
	Soft uint64 `json:"soft"`
}

type JHugepage struct {
	PageSize string `json:"pageSize"`
	Limit    uint64 `json:"limit"`
}

type JMemory struct {
	Limit            *int64  `json:"limit"`
	Reservation      *int64  `json:"reservation"`
	Swap             *int64  `json:"swap"`
	Kernel           *int64  `json:"kernel"`
	KernelTcp        *int64  `json:"kernelTcp"`
	Swappiness       *uint64 `json:"swappiness"`
	DisableOomKiller *bool   `json:"disableOomKiller"`
	UseHierarchy     *bool   `json:"useHierarchy"`
}

type JCpu struct {
	Shares          *uint64 `json:"shares"`
	Quota           *int64  `json:"quota"`
	Period          *uint64 `json:"period"`
	RealtimeRuntime *int64  `json:"realtimeRuntime"`
	RealtimePeriod  *uint64 `json:"realtimePeriod"`
	Cpus            string  `json:"cpus"`
	Mems            string  `json:"mems"`
}

type JResources struct {
	Memory       *JMemory    `json:"memory"`
	Cpu          *JCpu       `json:"cpu"`
	Hugepages    []JHugepage `json:"hugepages"`
	BlockioClass *string     `json:"blockioClass"`
	RdtClass     *string     `json:"rdtClass"`
	Unified      [][2]string `json:"unified"`
	Pids         *int64      `json:"pids"`
}

type JContainer struct {
	Id          string      `json:"id"`
	Annotations [][2]string `json:"annotations"`
	Args        []string    `json:"args"`
	Env         []string    `json:"env"`
	Mounts      []JMount    `json:"mounts"`
	Hooks       JHooks      `json:"hooks"`
	Rlimits     []JRlimit   `json:"rlimits"`
	Devices     []JDevice   `json:"devices"`
	Resources   JResources  `json:"resources"`
	OomScoreAdj *int64      `json:"oomScoreAdj"`
	CgroupsPath string      `json:"cgroupsPath"`
	Rest        string      `json:"rest"`
}

type JAdjust struct {
	Annotations [][2]string `json:"annotations"`
	Mounts      []JMount    `json:"mounts"`
	Env         []JKV       `json:"env"`
	Hooks       *JHooks     `json:"hooks"`
	HasLinux    bool        `json:"hasLinux"`
	Devices     []JDevice   `json:"devices"`
	Resources   *JResources `json:"resources"`
	CgroupsPath string      `json:"cgroupsPath"`
	OomScoreAdj *int64      `json:"oomScoreAdj"`
	Rlimits     []JRlimit   `json:"rlimits"`
	CdiDevices  []string    `json:"cdiDevices"`
	Args        []string    `json:"args"`
}

type JUpdate struct {
	ContainerId   string      `json:"containerId"`
	Resources     *JResources `json:"resources"`
	IgnoreFailure bool        `json:"ignoreFailure"`
}

func strs(s []string) []string {
	if s == nil {
		return []string{}
	}
	return append([]string{}, s...)
}

func pairs(m map[string]string) [][2]string {
	out := make([][2]string, 0, len(m))
	for k, v := range m {
		out = append(out, [2]string{k, v})
	}
	sort.Slice(out, func(i, j int) bool { return out[i][0] < out[j][0] })
	return out
}

func unpairs(p [][2]string) map[string]string {
	if len(p) == 0 {
		return nil
	}
	m := map[string]string{}
	for _, kv := range p {
		m[kv[0]] = kv[1]
	}
	return m
}

// ---- api -> J

func FromMount(m *api.Mount) JMount {
	return JMount{m.GetDestination(), m.GetType(), m.GetSource(), strs(m.GetOptions())}
}

func FromMounts(ms []*api.Mount) []JMount {
	out := make([]JMount, 0, len(ms))
	for _, m := range ms {
		out = append(out, FromMount(m))
	}
	return out
}

func fromHookList(hs []*api.Hook) []JHook {
	out := make([]JHook, 0, len(hs))
	for _, h := range hs {
		j := JHook{Path: h.GetPath(), Args: strs(h.GetArgs()), Env: strs(h.GetEnv())}
		if h.GetTimeout() != nil {
			v := h.GetTimeout().GetValue()
			j.Timeout = &v
		}
		out = append(out, j)
	}
	return out
}

func FromHooks(h *api.Hooks) JHooks {
	return JHooks{fromHookList(h.GetPrestart()), fromHookList(h.GetCreateRuntime()), fromHookList(h.GetCreateContainer()),
		fromHookList(h.GetStartContainer()), fromHookList(h.GetPoststart()), fromHookList(h.GetPoststop())}
}

func FromDevices(ds []*api.LinuxDevice) []JDevice {
	out := make([]JDevice, 0, len(ds))
	for _, d := range ds {
		j := JDevice{Path: d.GetPath(), Type: d.GetType(), Major: d.GetMajor(), Minor: d.GetMinor()}
		if d.GetFileMode() != nil {
			v := d.GetFileMode().GetValue()
			j.FileMode = &v
		}
		if d.GetUid() != nil {
			v := d.GetUid().GetValue()
			j.Uid = &v
		}
		if d.GetGid() != nil {
			v := d.GetGid().GetValue()
			j.Gid = &v
		}
		out = append(out, j)
	}
	return out
}

func oi64(o *api.OptionalInt64) *int64 {
	if o == nil {
		return nil
	}
	v := o.GetValue()
	return &v
}
func ou64(o *api.OptionalUInt64) *uint64 {
	if o == nil {
		return nil
	}
	v := o.GetValue()
	return &v
}
func obool(o *api.OptionalBool) *bool {
	if o == nil {
		return nil
	}
	v := o.GetValue()
	return &v
}
func ostr(o *api.OptionalString) *string {
	if o == nil {
		return nil
	}
	v := o.GetValue()
	return &v
}
func oint(o *api.OptionalInt) *int64 {
	if o == nil {
		return nil
	}
	v := o.GetValue()
	return &v
}

// FromResources canonicalises: a nil memory/cpu section and an empty one are the same on
// the wire as far as any reader of the fields can tell, so both come out as all-null.
func FromResources(r *api.LinuxResources) JResources {
	j := JResources{Hugepages: []JHugepage{}, Unified: pairs(r.GetUnified())}
	m := r.GetMemory()
	j.Memory = &JMemory{oi64(m.GetLimit()), oi64(m.GetReservation()), oi64(m.GetSwap()), oi64(m.GetKernel()),
		oi64(m.GetKernelTcp()), ou64(m.GetSwappiness()), obool(m.GetDisableOomKiller()), obool(m.GetUseHierarchy())}
	c := r.GetCpu()
	j.Cpu = &JCpu{ou64(c.GetShares()), oi64(c.GetQuota()), ou64(c.GetPeriod()), oi64(c.GetRealtimeRuntime()),
		ou64(c.GetRealtimePeriod()), c.GetCpus(), c.GetMems()}
	for _, l := range r.GetHugepageLimits() {
		j.Hugepages = append(j.Hugepages, JHugepage{l.GetPageSize(), l.GetLimit()})
	}
	j.BlockioClass = ostr(r.GetBlockioClass())
	j.RdtClass = ostr(r.GetRdtClass())
	if r.GetPids() != nil {
		v := r.GetPids().GetLimit()
		j.Pids = &v
	}
	return j
}

func FromRlimits(ls []*api.POSIXRlimit) []JRlimit {
	out := make([]JRlimit, 0, len(ls))
	for _, l := range ls {
		out = append(out, JRlimit{l.GetType(), l.GetHard(), l.GetSoft()})
	}
	return out
}

func FromContainer(c *api.Container) JContainer {
	rest := c.GetPodSandboxId() + "|" + c.GetName() + "|" + c.GetState().String()
	for _, kv := range pairs(c.GetLabels()) {
		rest += "|" + kv[0] + "=" + kv[1]
	}
	return JContainer{
		Id: c.GetId(), Annotations: pairs(c.GetAnnotations()), Args: strs(c.GetArgs()), Env: strs(c.GetEnv()),
		Mounts: FromMounts(c.GetMounts()), Hooks: FromHooks(c.GetHooks()), Rlimits: FromRlimits(c.GetRlimits()),
		Devices: FromDevices(c.GetLinux().GetDevices()), Resources: FromResources(c.GetLinux().GetResources()),
		OomScoreAdj: oint(c.GetLinux().GetOomScoreAdj()), CgroupsPath: c.GetLinux().GetCgroupsPath(), Rest: rest,
	}
}

func FromAdjust(a *api.ContainerAdjustment) *JAdjust {
	if a == nil {
		return nil
	}
	j := &JAdjust{Annotations: pairs(a.GetAnnotations()), Mounts: FromMounts(a.GetMounts()), Env: []JKV{},
		HasLinux: a.GetLinux() != nil, Devices: FromDevices(a.GetLinux().GetDevices()),
		CgroupsPath: a.GetLinux().GetCgroupsPath(), OomScoreAdj: oint(a.GetLinux().GetOomScoreAdj()),
		Rlimits: FromRlimits(a.GetRlimits()), CdiDevices: []string{}, Args: strs(a.GetArgs())}
	for _, e := range a.GetEnv() {
		j.Env = append(j.Env, JKV{e.GetKey(), e.GetValue()})
	}
	if a.GetHooks() != nil {
		h := FromHooks(a.GetHooks())
		j.Hooks = &h
	}
	if a.GetLinux().GetResources() != nil {
		r := FromResources(a.GetLinux().GetResources())
		j.Resources = &r
	}
	for _, d := range a.GetCDIDevices() {
		j.CdiDevices = append(j.CdiDevices, d.GetName())
	}
	return j
}

func FromUpdate(u *api.ContainerUpdate) *JUpdate {
	if u == nil {
		return nil
	}
	j := &JUpdate{ContainerId: u.GetContainerId(), IgnoreFailure: u.GetIgnoreFailure()}
	if u.GetLinux().GetResources() != nil {
		r := FromResources(u.GetLinux().GetResources())
		j.Resources = &r
	}
	return j
}

// ---- J -> api

func ToMounts(ms []JMount) []*api.Mount {
	var out []*api.Mount
	for _, m := range ms {
		out = append(out, &api.Mount{Destination: m.Destination, Type: m.Type, Source: m.Source, Options: append([]string(nil), m.Options...)})
	}
	return out
}

func toHookList(hs []JHook) []*api.Hook {
	var out []*api.Hook
	for _, h := range hs {
		a := &api.Hook{Path: h.Path, Args: append([]string(nil), h.Args...), Env: append([]string(nil), h.Env...)}
		if h.Timeout != nil {
			a.Timeout = &api.OptionalInt{Value: *h.Timeout}
		}
		out = append(out, a)
	}
	return out
}

func ToHooks(h JHooks) *api.Hooks {
	return &api.Hooks{Prestart: toHookList(h.Prestart), CreateRuntime: toHookList(h.CreateRuntime),
		CreateContainer: toHookList(h.CreateContainer), StartContainer: toHookList(h.StartContainer),
		Poststart: toHookList(h.Poststart), Poststop: toHookList(h.Poststop)}
}

func ToDevices(ds []JDevice) []*api.LinuxDevice {
	var out []*api.LinuxDevice
	for _, d := range ds {
		a := &api.LinuxDevice{Path: d.Path, Type: d.Type, Major: d.Major, Minor: d.Minor}
		if d.FileMode != nil {
			a.FileMode = &api.OptionalFileMode{Value: *d.FileMode}
		}
		if d.Uid != nil {
			a.Uid = &api.OptionalUInt32{Value: *d.Uid}
		}
		if d.Gid != nil {
			a.Gid = &api.OptionalUInt32{Value: *d.Gid}
		}
		out = append(out, a)
	}
	return out
}

func memIsZero(m *JMemory) bool {
	return m == nil || (m.Limit == nil && m.Reservation == nil && m.Swap == nil && m.Kernel == nil && m.KernelTcp == nil &&
		m.Swappiness == nil && m.DisableOomKiller == nil && m.UseHierarchy == nil)
}

func cpuIsZero(c *JCpu) bool {
	return c == nil || (c.Shares == nil && c.Quota == nil && c.Period == nil && c.RealtimeRuntime == nil &&
		c.RealtimePeriod == nil && c.Cpus == "" && c.Mems == "")
}

// ToResources builds the message a plugin or the runtime would send. `nilSections` leaves
// all-unset memory/cpu sections nil (as the adjustment helper methods do), otherwise they
// are present but empty.
func ToResources(j *JResources, nilSections bool) *api.LinuxResources {
	if j == nil {
		return nil
	}
	r := &api.LinuxResources{Unified: unpairs(j.Unified)}
	if !(nilSections && memIsZero(j.Memory)) {
		r.Memory = &api.LinuxMemory{}
		if m := j.Memory; m != nil {
			if m.Limit != nil {
				r.Memory.Limit = api.Int64(*m.Limit)
			}
			if m.Reservation != nil {
				r.Memory.Reservation = api.Int64(*m.Reservation)
			}
			if m.Swap != nil {
				r.Memory.Swap = api.Int64(*m.Swap)
			}
			if m.Kernel != nil {
				r.Memory.Kernel = api.Int64(*m.Kernel)
			}
			if m.KernelTcp != nil {
				r.Memory.KernelTcp = api.Int64(*m.KernelTcp)
			}
			if m.Swappiness != nil {
				r.Memory.Swappiness = api.UInt64(*m.Swappiness)
			}
			if m.DisableOomKiller != nil {
				r.Memory.DisableOomKiller = api.Bool(*m.DisableOomKiller)
			}
			if m.UseHierarchy != nil {
				r.Memory.UseHierarchy = api.Bool(*m.UseHierarchy)
			}
		}
	}
	if !(nilSections && cpuIsZero(j.Cpu)) {
		r.Cpu = &api.LinuxCPU{}
		if c := j.Cpu; c != nil {
			if c.Shares != nil {
				r.Cpu.Shares = api.UInt64(*c.Shares)
			}
			if c.Quota != nil {
				r.Cpu.Quota = api.Int64(*c.Quota)
			}
			if c.Period != nil {
				r.Cpu.Period = api.UInt64(*c.Period)
			}
			if c.RealtimeRuntime != nil {
				r.Cpu.RealtimeRuntime = api.Int64(*c.RealtimeRuntime)
			}
			if c.RealtimePeriod != nil {
				r.Cpu.RealtimePeriod = api.UInt64(*c.RealtimePeriod)
			}
			r.Cpu.Cpus = c.Cpus
			r.Cpu.Mems = c.Mems
		}
	}
	for _, l := range j.Hugepages {
		r.HugepageLimits = append(r.HugepageLimits, &api.HugepageLimit{PageSize: l.PageSize, Limit: l.Limit})
	}
	if j.BlockioClass != nil {
		r.BlockioClass = api.String(*j.BlockioClass)
	}
	if j.RdtClass != nil {
		r.RdtClass = api.String(*j.RdtClass)
	}
	if j.Pids != nil {
		r.Pids = &api.LinuxPids{Limit: *j.Pids}
	}
	return r
}

func ToRlimits(ls []JRlimit) []*api.POSIXRlimit {
	var out []*api.POSIXRlimit
	for _, l := range ls {
		out = append(out, &api.POSIXRlimit{Type: l.Type, Hard: l.Hard, Soft: l.Soft})
	}
	return out
}

// ToContainer builds the container the runtime submits. `sparse` leaves empty sections nil
// (a runtime is free to), exercising the collector's own normalisation.
func ToContainer(j *JContainer, sparse bool) *api.Container {
	c := &api.Container{Id: j.Id, PodSandboxId: "pod0", Name: "ctr-" + j.Id, State: api.ContainerState_CONTAINER_CREATED,
		Labels: map[string]string{"l": "v"}, Annotations: unpairs(j.Annotations), Args: append([]string(nil), j.Args...),
		Env: append([]string(nil), j.Env...), Mounts: ToMounts(j.Mounts), Rlimits: ToRlimits(j.Rlimits)}
	h := ToHooks(j.Hooks)
	if !sparse || len(h.Prestart)+len(h.CreateRuntime)+len(h.CreateContainer)+len(h.StartContainer)+len(h.Poststart)+len(h.Poststop) > 0 {
		c.Hooks = h
	}
	lin := &api.LinuxContainer{Devices: ToDevices(j.Devices), CgroupsPath: j.CgroupsPath}
	if j.OomScoreAdj != nil {
		lin.OomScoreAdj = &api.OptionalInt{Value: *j.OomScoreAdj}
	}
	lin.Resources = ToResources(&j.Resources, sparse)
	c.Linux = lin
	return c
}

func ToAdjust(j *JAdjust) *api.ContainerAdjustment {
	if j == nil {
		return nil
	}
	a := &api.ContainerAdjustment{Annotations: unpairs(j.Annotations), Mounts: ToMounts(j.Mounts),
		Rlimits: ToRlimits(j.Rlimits), Args: append([]string(nil), j.Args...)}
	for _, e := range j.Env {
		a.Env = append(a.Env, &api.KeyValue{Key: e.Key, Value: e.Value})
	}
	if j.Hooks != nil {
		a.Hooks = ToHooks(*j.Hooks)
	}
	if j.HasLinux {
		a.Linux = &api.LinuxContainerAdjustment{Devices: ToDevices(j.Devices), CgroupsPath: j.CgroupsPath,
			Resources: ToResources(j.Resources, true)}
		if j.OomScoreAdj != nil {
			a.Linux.OomScoreAdj = &api.OptionalInt{Value: *j.OomScoreAdj}
		}
	}
	for _, d := range j.CdiDevices {
		a.CDIDevices = append(a.CDIDevices, &api.CDIDevice{Name: d})
	}
	return a
}

func ToUpdate(j *JUpdate) *api.ContainerUpdate {
	u := &api.ContainerUpdate{ContainerId: j.ContainerId, IgnoreFailure: j.IgnoreFailure}
	if j.Resources != nil {
		u.Linux = &api.LinuxContainerUpdate{Resources: ToResources(j.Resources, true)}
	}
	return u
}

func ToUpdates(js []JUpdate) []*api.ContainerUpdate {
	var out []*api.ContainerUpdate
	for i := range js {
		out = append(out, ToUpdate(&js[i]))
	}
	return out
}
