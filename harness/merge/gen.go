package merge

import (
	"fmt"
	"math/rand"
	"strings"
)

// Item names one ownable item of a container (kind + key for the keyed families).
type Item struct {
	Kind string
	Key  string
}

var ScalarKinds = []string{"memLimit", "memReservation", "memSwap", "memKernel", "memKernelTcp", "memSwappiness",
	"memDisableOom", "memUseHierarchy", "cpuShares", "cpuQuota", "cpuPeriod", "cpuRtRuntime", "cpuRtPeriod",
	"cpusetCpus", "cpusetMems", "pids", "blockio", "rdt"}

// resource items exist on every path; the rest only in creation adjustments
var ResourceKeyed = []string{"hugepage", "unified"}
var AdjustOnlyKinds = []string{"annotation", "mount", "device", "cdi", "env", "args", "rlimit", "cgroupsPath", "oomScoreAdj"}
var Removable = map[string]bool{"annotation": true, "mount": true, "device": true, "env": true, "args": true}

var keyAlphabet = map[string][]string{
	"annotation": {"k0", "k1", "k2", "k3", "k4", "k5", "k6", "k7", "k8", "k9", "k10", "k11"},
	"mount":      {"/m0", "/m1", "/m0/sub", "/m2", "/m3", "/m3/a/b", "/m4", "/m5", "/m1/x", "/m6", "/m7", "/m8"},
	"device":     {"/dev/d0", "/dev/d1", "/dev/d2", "/dev/d3", "/dev/d4", "/dev/d5", "/dev/d6", "/dev/d7", "/dev/d8", "/dev/d9", "/dev/d10", "/dev/d11"},
	"cdi":        {"vendor.com/class=dev0", "vendor.com/class=dev1", "vendor.com/class=dev2", "vendor.com/class=dev3", "vendor.com/class=dev4", "vendor.com/class=dev5"},
	"env":        {"E0", "E1", "E2", "E3", "E4", "E5", "E6", "E7", "E8", "E9", "E10", "E11"},
	"rlimit":     {"RLIMIT_NOFILE", "RLIMIT_CORE", "RLIMIT_AS", "RLIMIT_CPU", "RLIMIT_DATA", "RLIMIT_STACK"},
	"hugepage":   {"2M", "1G", "64K", "32M", "16M", "512M"},
	"unified":    {"memory.high", "cpu.weight", "io.max", "memory.low", "pids.max", "cpu.max"},
}

func Keys(kind string) []string {
	if k, ok := keyAlphabet[kind]; ok {
		return k
	}
	return []string{""}
}

func ip(v int64) *int64    { return &v }
func up(v uint64) *uint64  { return &v }
func bp(v bool) *bool      { return &v }
func sp(v string) *string  { return &v }
func u32(v uint32) *uint32 { return &v }

func ensureRes(r **JResources) *JResources {
	if *r == nil {
		*r = &JResources{Hugepages: []JHugepage{}, Unified: [][2]string{}}
	}
	return *r
}
func ensureMem(r *JResources) *JMemory {
	if r.Memory == nil {
		r.Memory = &JMemory{}
	}
	return r.Memory
}
func ensureCpu(r *JResources) *JCpu {
	if r.Cpu == nil {
		r.Cpu = &JCpu{}
	}
	return r.Cpu
}

// SetRes sets resource item `it` in r to a value derived from (who, n): the value names
// its writer so the final owner is recognisable in the reply.
func SetRes(r *JResources, it Item, who, n int) {
	v := int64(1000*(who+1) + n)
	if n == ZeroN {
		// the zero / empty value of the field: still a value that was SET
		v = 0
	}
	switch it.Kind {
	case "memLimit":
		ensureMem(r).Limit = ip(v)
	case "memReservation":
		ensureMem(r).Reservation = ip(v)
	case "memSwap":
		ensureMem(r).Swap = ip(v)
	case "memKernel":
		ensureMem(r).Kernel = ip(v)
	case "memKernelTcp":
		ensureMem(r).KernelTcp = ip(v)
	case "memSwappiness":
		ensureMem(r).Swappiness = up(uint64(v))
	case "memDisableOom":
		ensureMem(r).DisableOomKiller = bp(who%2 == 0 && n != ZeroN)
	case "memUseHierarchy":
		ensureMem(r).UseHierarchy = bp(who%2 == 1 && n != ZeroN)
	case "cpuShares":
		ensureCpu(r).Shares = up(uint64(v))
	case "cpuQuota":
		ensureCpu(r).Quota = ip(v)
	case "cpuPeriod":
		ensureCpu(r).Period = up(uint64(v))
	case "cpuRtRuntime":
		ensureCpu(r).RealtimeRuntime = ip(v)
	case "cpuRtPeriod":
		ensureCpu(r).RealtimePeriod = up(uint64(v))
	case "cpusetCpus":
		ensureCpu(r).Cpus = fmt.Sprintf("%d-%d", who, who+n+1)
	case "cpusetMems":
		ensureCpu(r).Mems = fmt.Sprintf("%d", who)
	case "pids":
		r.Pids = ip(v)
	case "blockio":
		r.BlockioClass = sp(zeroOr(n, fmt.Sprintf("bio-%d-%d", who, n)))
	case "rdt":
		r.RdtClass = sp(zeroOr(n, fmt.Sprintf("rdt-%d-%d", who, n)))
	case "hugepage":
		r.Hugepages = append(r.Hugepages, JHugepage{it.Key, uint64(v)})
	case "unified":
		// a Go map cannot carry one key twice: a repeated key replaces the entry
		val := zeroOr(n, fmt.Sprintf("u-%d-%d", who, n))
		for i := range r.Unified {
			if r.Unified[i][0] == it.Key {
				r.Unified[i][1] = val
				return
			}
		}
		r.Unified = append(r.Unified, [2]string{it.Key, val})
	default:
		panic("not a resource item: " + it.Kind)
	}
}

// ZeroN as the value selector makes SetRes / SetAdj write the zero / empty value of the item.
const ZeroN = 777

func zeroOr(n int, s string) string {
	if n == ZeroN {
		return ""
	}
	return s
}

// HasZero: the item has a zero / empty value that is distinct from "not set".
func HasZero(kind string) bool {
	switch kind {
	case "mount", "device", "cdi", "args", "cgroupsPath", "cpusetCpus", "cpusetMems":
		return false
	}
	return true
}

func IsResource(kind string) bool {
	for _, k := range ScalarKinds {
		if k == kind {
			return true
		}
	}
	return kind == "hugepage" || kind == "unified"
}

func NewAdjust() *JAdjust {
	return &JAdjust{Annotations: [][2]string{}, Mounts: []JMount{}, Env: []JKV{}, Devices: []JDevice{},
		Rlimits: []JRlimit{}, CdiDevices: []string{}, Args: []string{}}
}

// NearN added to a value selector gives the "near" twin of value n: the same item with the same
// identifying fields (mount type and source, device type and numbers, rlimit hard limit) that
// differs ONLY in a secondary field (content - not number - of the options, file mode, soft
// limit). A shortcut that compares values carelessly takes the twin for the value itself.
const NearN = 50

func mkMount(dst string, who, n int) JMount {
	if n >= NearN && n < ZeroN {
		m := mkMount(dst, who, n-NearN)
		m.Options = []string{"rbind", fmt.Sprintf("x%d", who)}
		if (n-NearN)%2 == 1 {
			m.Options = []string{fmt.Sprintf("o%d", who), "rbind"} // same options, other order
		}
		return m
	}
	return JMount{Destination: dst, Type: "bind", Source: fmt.Sprintf("/src/p%d/%d", who, n), Options: []string{"rbind", fmt.Sprintf("o%d", who)}}
}

func mkDevice(path string, who, n int) JDevice {
	if n >= NearN && n < ZeroN {
		d := mkDevice(path, who, n-NearN)
		if d.FileMode != nil {
			d.FileMode = u32(*d.FileMode ^ 0o66)
		} else {
			d.FileMode = u32(0o640)
		}
		return d
	}
	d := JDevice{Path: path, Type: "c", Major: int64(10 + who), Minor: int64(n)}
	if n%2 == 0 {
		d.FileMode = u32(0o600 + uint32(who))
	}
	if n%3 == 0 {
		d.Uid = u32(uint32(who))
		d.Gid = u32(uint32(n))
	}
	return d
}

// SetAdj makes adjustment a set item `it` (value derived from who, n).
func SetAdj(a *JAdjust, it Item, who, n int) {
	switch it.Kind {
	case "annotation":
		a.Annotations = append(a.Annotations, [2]string{it.Key, zeroOr(n, fmt.Sprintf("a-%d-%d", who, n))})
	case "mount":
		a.Mounts = append(a.Mounts, mkMount(it.Key, who, n))
	case "device":
		a.HasLinux = true
		a.Devices = append(a.Devices, mkDevice(it.Key, who, n))
	case "cdi":
		a.CdiDevices = append(a.CdiDevices, it.Key)
	case "env":
		// every fourth value is not ASCII (two-byte UTF-8 sequences whose second byte lies in the C1
		// range 0x80-0x9f: ß Ö Ł): values are passed on byte for byte
		v := fmt.Sprintf("e-%d-%d", who, n)
		if (who+n)%4 == 3 {
			v = fmt.Sprintf("Grüße-%d-%d-ÖŁ", who, n)
		}
		a.Env = append(a.Env, JKV{it.Key, zeroOr(n, v)})
	case "args":
		a.Args = []string{fmt.Sprintf("cmd-p%d", who), fmt.Sprintf("arg%d", n)}
	case "rlimit":
		if n == ZeroN {
			a.Rlimits = append(a.Rlimits, JRlimit{it.Key, 0, 0})
		} else {
			if n >= NearN {
				// same hard limit as value n-NearN, another soft limit
				a.Rlimits = append(a.Rlimits, JRlimit{it.Key, uint64(2000 + 10*who + n - NearN), uint64(1000 + 10*who + n)})
			} else {
				a.Rlimits = append(a.Rlimits, JRlimit{it.Key, uint64(2000 + 10*who + n), uint64(1000 + 10*who + n)})
			}
		}
	case "cgroupsPath":
		a.HasLinux = true
		// the path is the plugin's to choose and passed on as it is: clean absolute (cgroupfs driver),
		// slice:prefix:name (systemd driver), relative, with a trailing or a doubled slash
		a.CgroupsPath = fmt.Sprintf([]string{"/cg/p%d/%d", "system.slice:nri-p%d:%d", "cg/p%d/%d", "/cg/p%d/%d/", "//cg//p%d/%d"}[(who+n)%5], who, n)
	case "oomScoreAdj":
		a.HasLinux = true
		if n == ZeroN {
			a.OomScoreAdj = ip(0)
		} else {
			a.OomScoreAdj = ip(int64(-100 + 10*who + n))
		}
	default:
		a.HasLinux = true
		SetRes(ensureRes(&a.Resources), it, who, n)
	}
}

// RemoveAdj adds the removal marker for `it` (only removable kinds); front=true puts it
// before what is already there (remove-then-set list order).
func RemoveAdj(a *JAdjust, it Item, front bool) {
	switch it.Kind {
	case "annotation":
		a.Annotations = append(a.Annotations, [2]string{"-" + it.Key, ""})
	case "mount":
		m := JMount{Destination: "-" + it.Key, Options: []string{}}
		if front {
			a.Mounts = append([]JMount{m}, a.Mounts...)
		} else {
			a.Mounts = append(a.Mounts, m)
		}
	case "device":
		a.HasLinux = true
		d := JDevice{Path: "-" + it.Key}
		if front {
			a.Devices = append([]JDevice{d}, a.Devices...)
		} else {
			a.Devices = append(a.Devices, d)
		}
	case "env":
		e := JKV{"-" + it.Key, ""}
		if front {
			a.Env = append([]JKV{e}, a.Env...)
		} else {
			a.Env = append(a.Env, e)
		}
	case "args":
		if len(a.Args) == 0 || a.Args[0] != "" {
			a.Args = append([]string{""}, a.Args...)
		}
	default:
		panic("not removable: " + it.Kind)
	}
}

func NewUpdate(id string, ignore bool) JUpdate {
	return JUpdate{ContainerId: id, IgnoreFailure: ignore}
}

// BaseContainer is an original container; populate selects which families are pre-filled.
func BaseContainer(id string, r *rand.Rand, populate float64) JContainer {
	c := JContainer{Id: id, Annotations: [][2]string{}, Args: []string{"orig-cmd", "orig-arg"}, Env: []string{},
		Mounts: []JMount{}, Rlimits: []JRlimit{}, Devices: []JDevice{},
		Resources: JResources{Hugepages: []JHugepage{}, Unified: [][2]string{}}}
	pick := func() bool { return r != nil && r.Float64() < populate }
	if populate >= 1 {
		pick = func() bool { return true }
	}
	for i, k := range Keys("annotation")[:8] {
		if pick() {
			c.Annotations = append(c.Annotations, [2]string{k, fmt.Sprintf("orig-a%d", i)})
		}
	}
	if pick() {
		c.Annotations = append(c.Annotations, [2]string{"zz-untouched", "keep"})
	}
	for i, k := range Keys("env")[:8] {
		if pick() {
			c.Env = append(c.Env, fmt.Sprintf("%s=orig-e%d", k, i))
		}
	}
	if pick() {
		c.Env = append(c.Env, "PATH=/bin:/usr/bin", "WITH=eq=in=value")
	}
	for i, k := range Keys("mount")[:8] {
		if pick() {
			c.Mounts = append(c.Mounts, JMount{k, "bind", fmt.Sprintf("/orig/src%d", i), []string{"ro"}})
		}
	}
	if pick() {
		c.Mounts = append(c.Mounts, JMount{"/proc", "proc", "proc", []string{}})
	}
	for i, k := range Keys("device")[:8] {
		if pick() {
			c.Devices = append(c.Devices, mkDevice(k, 90, i))
		}
	}
	if pick() {
		c.Rlimits = append(c.Rlimits, JRlimit{"RLIMIT_NPROC", 99, 98})
	}
	if pick() {
		c.Hooks.Prestart = []JHook{{Path: "/orig/hook", Args: []string{"hook"}, Env: []string{}}}
	}
	if pick() {
		c.CgroupsPath = "/orig/cgroup"
	}
	if pick() {
		c.OomScoreAdj = ip(7)
	}
	res := &c.Resources
	for _, k := range ScalarKinds {
		if pick() {
			SetRes(res, Item{k, ""}, 90, 0)
		}
	}
	if pick() {
		SetRes(res, Item{"unified", "orig.unified"}, 90, 0)
	}
	// hugepage limits the runtime already requested (kubelet-created containers carry them),
	// of sizes the plugins use too
	for _, k := range Keys("hugepage")[:3] {
		if pick() && pick() {
			SetRes(res, Item{"hugepage", k}, 90, 0)
		}
	}
	return c
}

// FullResources pre-populates every resource field (the runtime's own update request).
func FullResources(r *rand.Rand, populate float64) *JResources {
	res := &JResources{Hugepages: []JHugepage{}, Unified: [][2]string{}}
	for _, k := range ScalarKinds {
		if populate >= 1 || (r != nil && r.Float64() < populate) {
			SetRes(res, Item{k, ""}, 80, 0)
		}
	}
	if populate >= 1 || (r != nil && r.Float64() < populate) {
		SetRes(res, Item{"hugepage", "8M"}, 80, 0)
		SetRes(res, Item{"unified", "req.unified"}, 80, 0)
	}
	// … and a hugepage limit of a size the plugins set too (the runtime's request and a plugin's
	// update then both name it: the entry must carry the plugin's value after the runtime's)
	if populate >= 1 || (r != nil && r.Float64() < populate/2) {
		SetRes(res, Item{"hugepage", Keys("hugepage")[0]}, 80, 1)
	}
	return res
}

// AllItems enumerates every item kind with a representative key (and a second key for the
// keyed families, used for the "disjoint" shape).
func AllItems() []Item {
	var out []Item
	for _, k := range AdjustOnlyKinds {
		out = append(out, Item{k, Keys(k)[0]})
	}
	// keys that are legal but unusual: not in cleaned-path form, punctuation, a dash inside.
	// The collector treats keys as opaque strings; so must every claim/clear pair.
	out = append(out, Item{"mount", "/m9/"}, Item{"mount", "/x/../m9"}, Item{"device", "/dev//odd"},
		Item{"env", "ODD.KEY-1"}, Item{"annotation", "odd/key.with-dash"}, Item{"annotation", "k-"},
		// an original variable whose VALUE contains '=' (BaseContainer: "WITH=eq=in=value")
		Item{"env", "WITH"})
	for _, k := range ResourceKeyed {
		out = append(out, Item{k, Keys(k)[0]})
	}
	for _, k := range ScalarKinds {
		out = append(out, Item{k, ""})
	}
	return out
}

func otherItem(it Item) Item {
	if ks, ok := keyAlphabet[it.Kind]; ok {
		return Item{it.Kind, ks[1]}
	}
	// a different scalar / singleton item
	switch it.Kind {
	case "memLimit":
		return Item{"cpuShares", ""}
	case "args":
		return Item{"cgroupsPath", ""}
	case "cgroupsPath":
		return Item{"oomScoreAdj", ""}
	case "oomScoreAdj":
		return Item{"args", ""}
	}
	return Item{"memLimit", ""}
}

// setOn makes plugin `who`'s response set `it` on the given path.
func setOn(rsp *PluginRsp, path string, target string, it Item, who, n int, ignore bool) {
	switch path {
	case "adjust":
		if rsp.Adjust == nil {
			rsp.Adjust = NewAdjust()
		}
		SetAdj(rsp.Adjust, it, who, n)
	default: // update of `target`
		u := NewUpdate(target, ignore)
		SetRes(ensureRes(&u.Resources), it, who, n)
		rsp.Updates = append(rsp.Updates, u)
	}
}

type sysCase struct {
	id string
	in CaseIn
}

// Systematic enumerates the complete table: item kind × path × shape × pair position.
func Systematic() []sysCase {
	var out []sysCase
	paths := []struct{ kind, path, target string }{
		{"create", "adjust", ""},
		{"create", "update", "ctrA"},
		{"update", "update", "ctrA"},
		{"update", "update", "ctr0"}, // the container being updated
		{"stop", "update", "ctrA"},
		{"stop", "update", "ctr0"},
	}
	shapes := []string{"adjacent", "apart", "disjoint", "single-prepopulated", "rm-then-set", "middle-lone-rm", "ignored",
		"same-value", "same-as-original", "multi-removal", "multi-removal-reset",
		"noop-then-rm", "noop-then-rmset", "noop-reset-then-rmset",
		"near-original", "near-original-rmset", "near-earlier-rmset",
		"zero-single", "zero-adjacent", "zero-then-value", "ignored-partial-unified",
		"two-updates-second-ignored", "two-updates-first-ignored", "two-updates-then-taken",
		"parent-removed", "parent-removed-apart", "rm-set-rm", "rm-set-rm-set"}
	for _, it := range AllItems() {
		for _, p := range paths {
			if p.path == "update" && !IsResource(it.Kind) {
				continue
			}
			for _, shape := range shapes {
				if (shape == "rm-then-set" || shape == "middle-lone-rm") && !(p.path == "adjust" && Removable[it.Kind]) {
					continue
				}
				if (shape == "multi-removal" || shape == "multi-removal-reset") &&
					!(p.path == "adjust" && Removable[it.Kind] && it.Kind != "args") {
					continue
				}
				if (shape == "ignored" || strings.HasPrefix(shape, "two-updates-")) && p.path != "update" {
					continue
				}
				if strings.HasPrefix(shape, "noop-") && !(p.path == "adjust" && Removable[it.Kind]) {
					continue
				}
				if strings.HasPrefix(shape, "near-") && !(p.path == "adjust" && (it.Kind == "mount" || it.Kind == "device" || it.Kind == "rlimit")) {
					continue
				}
				if shape != "near-original" && strings.HasPrefix(shape, "near-") && !Removable[it.Kind] {
					continue
				}
				if strings.HasPrefix(shape, "zero-") && !HasZero(it.Kind) {
					continue
				}
				if strings.HasPrefix(shape, "rm-set-rm") && !(p.path == "adjust" && Removable[it.Kind] && it.Kind != "args") {
					continue
				}
				if strings.HasPrefix(shape, "parent-removed") && !(p.path == "adjust" && (it.Kind == "mount" || it.Kind == "device")) {
					continue
				}
				if shape == "ignored-partial-unified" && !(p.path == "update" && it.Kind == "unified") {
					continue
				}
				for first := 0; first < 2; first++ { // position of the first writer in the chain
					a := first * 2 // plugin 0 or 2
					in := CaseIn{Kind: p.kind, Container: BaseContainer("ctr0", nil, 0), Stream: "systematic"}
					if shape == "single-prepopulated" {
						in.Container = BaseContainer("ctr0", nil, 1)
					}
					if p.kind == "update" {
						in.Resources = FullResources(nil, 0)
						if shape == "single-prepopulated" {
							in.Resources = FullResources(nil, 1)
						}
					}
					rsp := make([]PluginRsp, NPlugins)
					for i := range rsp {
						rsp[i].Name = PluginName(i)
						rsp[i].Inst = i
						rsp[i].Updates = []JUpdate{}
					}
					switch shape {
					case "adjacent":
						setOn(&rsp[a], p.path, p.target, it, a, 0, false)
						setOn(&rsp[a+1], p.path, p.target, it, a+1, 0, false)
					case "apart":
						setOn(&rsp[a], p.path, p.target, it, a, 0, false)
						setOn(&rsp[a+1], p.path, p.target, otherItem(it), a+1, 0, false)
						setOn(&rsp[a+3], p.path, p.target, it, a+3, 0, false)
					case "disjoint":
						setOn(&rsp[a], p.path, p.target, it, a, 0, false)
						setOn(&rsp[a+1], p.path, p.target, otherItem(it), a+1, 0, false)
					case "single-prepopulated":
						setOn(&rsp[a+1], p.path, p.target, it, a+1, 0, false)
					case "rm-set-rm", "rm-set-rm-set":
						// removed, set again, removed again (each by another plugin, lone removals), then
						// a later plugin looks (and in the second shape sets it once more): the second
						// removal must take effect in the view and in the reply like the first
						primeOriginal(&in, p.path, p.target, it, 7, 0)
						rsp[a].Adjust = NewAdjust()
						RemoveAdj(rsp[a].Adjust, it, true)
						setOn(&rsp[a+1], p.path, p.target, it, a+1, 0, false)
						rsp[a+2].Adjust = NewAdjust()
						RemoveAdj(rsp[a+2].Adjust, it, true)
						if shape == "rm-set-rm-set" {
							setOn(&rsp[a+3], p.path, p.target, it, a+3, 1, false)
						} else {
							setOn(&rsp[a+3], p.path, p.target, otherItem(it), a+3, 0, false)
						}
					case "parent-removed", "parent-removed-apart":
						// an earlier plugin sets an item and one NESTED below it (/m0 and /m0/sub); a
						// later plugin removes only the outer one - that releases the outer item and
						// nothing else - and the nested one is set again by it (or by a plugin after
						// it) without a removal: a collision
						child := Item{it.Kind, it.Key + "/sub"}
						setOn(&rsp[a], p.path, p.target, it, a, 0, false)
						setOn(&rsp[a], p.path, p.target, child, a, 0, false)
						rsp[a+1].Adjust = NewAdjust()
						RemoveAdj(rsp[a+1].Adjust, it, true)
						if shape == "parent-removed" {
							SetAdj(rsp[a+1].Adjust, child, a+1, 1)
						} else {
							setOn(&rsp[a+3], p.path, p.target, child, a+3, 1, false)
						}
					case "rm-then-set":
						setOn(&rsp[a], p.path, p.target, it, a, 0, false)
						setOn(&rsp[a+2], p.path, p.target, it, a+2, 1, false)
						RemoveAdj(rsp[a+2].Adjust, it, true)
					case "middle-lone-rm":
						setOn(&rsp[a], p.path, p.target, it, a, 0, false)
						rsp[a+1].Adjust = NewAdjust()
						RemoveAdj(rsp[a+1].Adjust, it, true)
						setOn(&rsp[a+3], p.path, p.target, it, a+3, 1, false)
					case "multi-removal", "multi-removal-reset":
						// two earlier plugins each add an entry; ONE later adjustment removes both
						// (and, in the second shape, sets one of them again)
						o := otherItem(it)
						setOn(&rsp[a], p.path, p.target, it, a, 0, false)
						setOn(&rsp[a+1], p.path, p.target, o, a+1, 0, false)
						rsp[a+3].Adjust = NewAdjust()
						RemoveAdj(rsp[a+3].Adjust, it, false)
						RemoveAdj(rsp[a+3].Adjust, o, false)
						if shape == "multi-removal-reset" {
							SetAdj(rsp[a+3].Adjust, o, a+3, 1)
						}
						if first == 1 {
							// the same with the original container holding both entries too
							primeOriginal(&in, p.path, p.target, it, 8, 0)
							primeOriginal(&in, p.path, p.target, o, 8, 1)
						}
					case "same-value":
						// both plugins set the item to the very same value: still two setters
						setOn(&rsp[a], p.path, p.target, it, 7, 0, false)
						setOn(&rsp[a+2], p.path, p.target, it, 7, 0, false)
					case "same-as-original":
						// the first plugin's value equals what the original container / the runtime's
						// request already carries; the second plugin sets another value
						setOn(&rsp[a], p.path, p.target, it, 7, 0, false)
						setOn(&rsp[a+1], p.path, p.target, it, a+1, 1, false)
						primeOriginal(&in, p.path, p.target, it, 7, 0)
					case "near-original":
						// a plugin sets the item to the near twin of what the original container
						// carries (same identity, one secondary field differs): it IS a change
						primeOriginal(&in, p.path, p.target, it, 7, 0)
						setOn(&rsp[a+1], p.path, p.target, it, 7, NearN, false)
					case "near-original-rmset":
						// ... the same with an explicit removal first, and (odd twin: same mount
						// options in another order)
						primeOriginal(&in, p.path, p.target, it, 7, 1)
						setOn(&rsp[a], p.path, p.target, it, 7, NearN+1, false)
						RemoveAdj(rsp[a].Adjust, it, true)
					case "near-earlier-rmset":
						// a later plugin takes an earlier plugin's item over with its near twin
						setOn(&rsp[a], p.path, p.target, it, 7, 0, false)
						setOn(&rsp[a+2], p.path, p.target, it, 7, NearN, false)
						RemoveAdj(rsp[a+2].Adjust, it, true)
					case "noop-then-rm":
						// a plugin sets the item to the value the original container already
						// carries (a no-op for the container, but a claim); a later plugin removes
						// it, a third sets another value
						primeOriginal(&in, p.path, p.target, it, 7, 0)
						setOn(&rsp[a], p.path, p.target, it, 7, 0, false)
						rsp[a+1].Adjust = NewAdjust()
						RemoveAdj(rsp[a+1].Adjust, it, true)
						setOn(&rsp[a+3], p.path, p.target, it, a+3, 1, false)
					case "noop-then-rmset":
						// … or removes it and sets another value in one response
						primeOriginal(&in, p.path, p.target, it, 7, 0)
						setOn(&rsp[a], p.path, p.target, it, 7, 0, false)
						setOn(&rsp[a+2], p.path, p.target, it, a+2, 1, false)
						RemoveAdj(rsp[a+2].Adjust, it, true)
					case "noop-reset-then-rmset":
						// the second plugin removes and re-sets the very value the first one set
						// (what it is shown already carries it); a third replaces it properly
						setOn(&rsp[a], p.path, p.target, it, 7, 0, false)
						setOn(&rsp[a+1], p.path, p.target, it, 7, 0, false)
						RemoveAdj(rsp[a+1].Adjust, it, true)
						setOn(&rsp[a+3], p.path, p.target, it, a+3, 1, false)
						RemoveAdj(rsp[a+3].Adjust, it, true)
					case "zero-single":
						// one writer, writing the zero / empty value: it is a value that was set
						setOn(&rsp[a+1], p.path, p.target, it, a+1, ZeroN, false)
					case "zero-adjacent":
						// two writers of the zero value: still two setters
						setOn(&rsp[a], p.path, p.target, it, a, ZeroN, false)
						setOn(&rsp[a+1], p.path, p.target, it, a+1, ZeroN, false)
					case "zero-then-value":
						setOn(&rsp[a], p.path, p.target, it, a, ZeroN, false)
						setOn(&rsp[a+2], p.path, p.target, it, a+2, 1, false)
					case "ignored-partial-unified":
						// an ignore-failure update names two unified keys, one already owned; the
						// other one is set by a later plugin: whether the dropped update keeps its
						// claim on it depends on Go's map iteration order
						o := otherItem(it)
						setOn(&rsp[a], p.path, p.target, o, a, 0, false)
						u := NewUpdate(p.target, true)
						SetRes(ensureRes(&u.Resources), it, a+1, 0)
						SetRes(u.Resources, o, a+1, 0)
						SetRes(u.Resources, Item{"unified", "zz.extra"}, a+1, 0)
						rsp[a+1].Updates = append(rsp[a+1].Updates, u)
						u2 := NewUpdate(p.target, first == 1)
						SetRes(ensureRes(&u2.Resources), it, a+3, 1)
						rsp[a+3].Updates = append(rsp[a+3].Updates, u2)
					case "two-updates-second-ignored":
						// ONE response with two updates of the same target: the first sets `it`
						// and stands; the second is marked ignore-failure and collides with an
						// earlier plugin on another field, so it is dropped - alone. A later
						// plugin setting `it` still collides with the first update.
						o := otherItem(it)
						setOn(&rsp[a], p.path, p.target, o, a, 0, false)
						setOn(&rsp[a+1], p.path, p.target, it, a+1, 1, false)
						setOn(&rsp[a+1], p.path, p.target, o, a+1, 2, true)
						setOn(&rsp[a+3], p.path, p.target, it, a+3, 3, false)
					case "two-updates-first-ignored":
						// the dropped update comes first, the standing one second
						o := otherItem(it)
						setOn(&rsp[a], p.path, p.target, o, a, 0, false)
						setOn(&rsp[a+1], p.path, p.target, o, a+1, 2, true)
						setOn(&rsp[a+1], p.path, p.target, it, a+1, 1, false)
						setOn(&rsp[a+2], p.path, p.target, it, a+2, 3, false)
					case "two-updates-then-taken":
						// no collision on `it`: the second (dropped) update of the response leaves
						// the first one's value and claim alone, nobody else touches `it`
						o := otherItem(it)
						setOn(&rsp[a], p.path, p.target, o, a, 0, false)
						setOn(&rsp[a+2], p.path, p.target, it, a+2, 1, false)
						setOn(&rsp[a+2], p.path, p.target, o, a+2, 2, true)
					case "ignored":
						setOn(&rsp[a], p.path, p.target, it, a, 0, false)
						// the later plugin's update conflicts but is marked ignore-failure; it also
						// carries another field which must be dropped with it
						u := NewUpdate(p.target, true)
						SetRes(ensureRes(&u.Resources), otherItem(it), a+1, 5)
						SetRes(u.Resources, it, a+1, 0)
						rsp[a+1].Updates = append(rsp[a+1].Updates, u)
					}
					in.Plugins = rsp
					out = append(out, sysCase{fmt.Sprintf("sys-%s%s-%s-%s%s-%s-%d", it.Kind, it.Key, p.kind, p.path, p.target, shape, a), in})
				}
			}
		}
	}
	return out
}

// ---- random stream

type Gen struct {
	R *rand.Rand
}

func (g *Gen) chance(p float64) bool { return g.R.Float64() < p }

// key picks a key for plugin `who`: mostly its "own" key so that chains are mostly
// conflict-free, sometimes any key.
func (g *Gen) key(kind string, who int, stray float64) string {
	ks := Keys(kind)
	if g.chance(stray) {
		return ks[g.R.Intn(len(ks))]
	}
	return ks[who%len(ks)]
}

func (g *Gen) randomAdjust(who int, stray float64) *JAdjust {
	a := NewAdjust()
	n := g.R.Intn(3)
	if g.chance(0.06) {
		n = ZeroN // zero / empty values: still values that were set
	}
	for _, kind := range []string{"annotation", "mount", "device", "env"} {
		if !g.chance(0.45) {
			continue
		}
		cnt := 1 + g.R.Intn(2)
		used := map[string]bool{}
		for j := 0; j < cnt; j++ {
			k := g.key(kind, who+6*j, stray)
			if used[k] {
				continue
			}
			used[k] = true
			it := Item{kind, k}
			switch g.R.Intn(7) {
			case 0: // lone removal
				RemoveAdj(a, it, false)
			case 1: // remove then set
				RemoveAdj(a, it, false)
				SetAdj(a, it, who, n)
			case 2: // set, then the removal marker later in the list: the set still wins
				SetAdj(a, it, who, n)
				RemoveAdj(a, it, false)
			default:
				SetAdj(a, it, who, n)
			}
		}
	}
	if (who == 1 && g.chance(0.5)) || g.chance(0.08) {
		SetAdj(a, Item{"args", ""}, who, n)
		if g.chance(0.7) {
			RemoveAdj(a, Item{"args", ""}, true)
		}
	}
	if g.chance(0.3) {
		h := JHooks{}
		hk := JHook{Path: fmt.Sprintf("/hook/p%d", who), Args: []string{"h", fmt.Sprint(n)}, Env: []string{"H=1"}}
		if g.chance(0.5) {
			hk.Timeout = ip(int64(5 + who))
		}
		switch g.R.Intn(6) {
		case 0:
			h.Prestart = []JHook{hk}
		case 1:
			h.CreateRuntime = []JHook{hk}
		case 2:
			h.CreateContainer = []JHook{hk}
		case 3:
			h.StartContainer = []JHook{hk}
		case 4:
			h.Poststart = []JHook{hk}
		default:
			h.Poststop = []JHook{hk, hk}
		}
		a.Hooks = &h
	}
	for _, kind := range []string{"rlimit", "cdi"} {
		if g.chance(0.25) {
			SetAdj(a, Item{kind, g.key(kind, who, stray)}, who, n)
		}
	}
	if g.chance(0.5) {
		g.randomRes(ensureRes(&a.Resources), who, stray, nil)
		a.HasLinux = true
	}
	if (who == 2 && g.chance(0.5)) || g.chance(stray/2) {
		SetAdj(a, Item{"cgroupsPath", ""}, who, n)
	}
	if (who == 4 && g.chance(0.5)) || g.chance(stray/2) {
		SetAdj(a, Item{"oomScoreAdj", ""}, who, n)
	}
	if g.chance(0.1) {
		a.HasLinux = true
	}
	return a
}

// randomRes sets a few resource fields; plugin `who` mostly sticks to "its" three scalars.
// `used` (may be nil) lists items already set for the same target inside this response;
// they are avoided so that one response rarely names an item twice.
func (g *Gen) randomRes(r *JResources, who int, stray float64, used map[string]bool) {
	n := g.R.Intn(3)
	if g.chance(0.06) {
		n = ZeroN
	}
	take := func(k string) bool {
		if used == nil {
			return true
		}
		if used[k] && !g.chance(0.03) {
			return false
		}
		used[k] = true
		return true
	}
	for j, k := range ScalarKinds {
		mine := j%NPlugins == who
		if ((mine && g.chance(0.6)) || g.chance(stray/12)) && take(k) {
			SetRes(r, Item{k, ""}, who, n)
		}
	}
	if g.chance(0.3) {
		if k := g.key("hugepage", who, stray); take("hugepage/" + k) {
			SetRes(r, Item{"hugepage", k}, who, n)
		}
	}
	for j := 0; j < 3 && g.chance(0.3); j++ {
		if k := g.key("unified", who, stray); take("unified/" + k) {
			SetRes(r, Item{"unified", k}, who, n)
		}
	}
}

var targets = []string{"ctrA", "ctrB", "ctrC"}

func (g *Gen) randomUpdates(who int, ownID string, allowOwn bool, stray float64) []JUpdate {
	out := []JUpdate{}
	if !g.chance(0.5) {
		return out
	}
	cnt := 1 + g.R.Intn(3)
	used := map[string]map[string]bool{}
	for j := 0; j < cnt; j++ {
		id := targets[g.R.Intn(len(targets))]
		if allowOwn && g.chance(0.4) {
			id = ownID
		}
		if used[id] == nil {
			used[id] = map[string]bool{}
		}
		u := NewUpdate(id, g.chance(0.2))
		if g.chance(0.9) {
			g.randomRes(ensureRes(&u.Resources), who, stray, used[id])
		}
		out = append(out, u)
	}
	return out
}

// Random builds one mostly-conflict-free case.
func (g *Gen) Random(i int) (string, CaseIn) {
	kinds := []string{"create", "create", "create", "update", "update", "stop"}
	kind := kinds[g.R.Intn(len(kinds))]
	stray := 0.04
	if g.chance(0.15) {
		stray = 0.3
	}
	in := CaseIn{Kind: kind, Container: BaseContainer("ctr0", g.R, []float64{0, 0.3, 0.7, 1}[g.R.Intn(4)]),
		Sparse: g.chance(0.3), Stream: "random"}
	if kind == "update" {
		if g.chance(0.85) {
			in.Resources = FullResources(g.R, []float64{0, 0.4, 1}[g.R.Intn(3)])
		}
	}
	np := 1 + g.R.Intn(NPlugins)
	perm := g.R.Perm(NPlugins)[:np]
	active := map[int]bool{}
	for _, p := range perm {
		active[p] = true
	}
	for p := 0; p < NPlugins; p++ {
		rsp := PluginRsp{Name: PluginName(p), Inst: p, Updates: []JUpdate{}}
		if active[p] {
			if kind == "create" && g.chance(0.9) {
				rsp.Adjust = g.randomAdjust(p, stray)
			}
			rsp.Updates = g.randomUpdates(p, "ctr0", kind != "create", stray)
		}
		in.Plugins = append(in.Plugins, rsp)
	}
	return fmt.Sprintf("rnd-%d", i), in
}

// Malformed builds inputs outside the properties' stated domain (guards): only the
// model/implementation correspondence is enforced on them.
func (g *Gen) Malformed(i int) (string, CaseIn) {
	in := CaseIn{Kind: "create", Container: BaseContainer("ctr0", g.R, 0.5), Stream: "malformed"}
	for p := 0; p < NPlugins; p++ {
		in.Plugins = append(in.Plugins, PluginRsp{Name: PluginName(p), Inst: p, Updates: []JUpdate{}})
	}
	who := g.R.Intn(NPlugins - 1)
	a := NewAdjust()
	in.Plugins[who].Adjust = a
	switch i % 7 {
	case 0: // one response names the same key twice
		kind := []string{"mount", "device", "env", "rlimit", "cdi"}[g.R.Intn(5)]
		it := Item{kind, Keys(kind)[0]}
		SetAdj(a, it, who, 0)
		SetAdj(a, it, who, 1)
	case 1: // self-update during creation
		u := NewUpdate("ctr0", g.chance(0.5))
		SetRes(ensureRes(&u.Resources), Item{"memLimit", ""}, who, 0)
		in.Plugins[who].Updates = append(in.Plugins[who].Updates, u)
	case 2: // set-then-remove list order inside one response
		kind := []string{"mount", "device", "env"}[g.R.Intn(3)]
		it := Item{kind, Keys(kind)[g.R.Intn(2)]}
		SetAdj(a, it, who, 0)
		RemoveAdj(a, it, false)
	case 3: // a key that itself starts with the removal marker
		kind := []string{"mount", "device", "env", "annotation"}[g.R.Intn(4)]
		it := Item{kind, Keys(kind)[0]}
		RemoveAdj(a, it, false)
		b := NewAdjust()
		RemoveAdj(b, Item{kind, "-" + it.Key}, false)
		in.Plugins[who+1].Adjust = b
	case 4: // bare args marker
		a.Args = []string{""}
	case 5: // hugepage size already present in the original
		in.Container.Resources.Hugepages = append(in.Container.Resources.Hugepages, JHugepage{"2M", 1})
		SetAdj(a, Item{"hugepage", "2M"}, who, 0)
	case 6: // empty keys
		a.Annotations = append(a.Annotations, [2]string{"", "empty-key"})
		a.Env = append(a.Env, JKV{"", "empty-name"})
		a.Mounts = append(a.Mounts, JMount{Destination: "", Options: []string{}})
	}
	return fmt.Sprintf("mal-%d", i), in
}

// Twins enumerates, for every item kind and path, chains over the twins rig (two plugin
// instances with the same index-name, one ordinary plugin): both twins set the item (must
// fail), a twin and the ordinary plugin set it (must fail), the twins set different items
// (must succeed). Relative order of the twins is unspecified, so only the success/failure
// predicates are evaluated on these cases.
func Twins() []sysCase {
	var out []sysCase
	paths := []struct{ kind, path, target string }{
		{"create", "adjust", ""}, {"create", "update", "ctrA"}, {"update", "update", "ctrA"},
		{"update", "update", "ctr0"}, {"stop", "update", "ctrA"},
	}
	for _, it := range AllItems() {
		for _, p := range paths {
			if p.path == "update" && !IsResource(it.Kind) {
				continue
			}
			for _, shape := range []string{"twins-collide", "twin-and-other", "twins-disjoint"} {
				in := CaseIn{Kind: p.kind, Container: BaseContainer("ctr0", nil, 0), Stream: "twins"}
				if p.kind == "update" {
					in.Resources = FullResources(nil, 0)
				}
				rsp := make([]PluginRsp, len(TwinNames))
				for i := range rsp {
					rsp[i] = PluginRsp{Name: TwinNames[i], Inst: i, Updates: []JUpdate{}}
				}
				switch shape {
				case "twins-collide":
					setOn(&rsp[0], p.path, p.target, it, 0, 0, false)
					setOn(&rsp[1], p.path, p.target, it, 1, 0, false)
				case "twin-and-other":
					setOn(&rsp[1], p.path, p.target, it, 1, 0, false)
					setOn(&rsp[2], p.path, p.target, it, 2, 0, false)
				case "twins-disjoint":
					setOn(&rsp[0], p.path, p.target, it, 0, 0, false)
					setOn(&rsp[1], p.path, p.target, otherItem(it), 1, 0, false)
				}
				in.Plugins = rsp
				out = append(out, sysCase{fmt.Sprintf("twin-%s%s-%s-%s%s-%s", it.Kind, it.Key, p.kind, p.path, p.target, shape), in})
			}
		}
	}
	return out
}

// primeOriginal gives the original container (or, for an update of the container being
// updated, the runtime's requested resources) the value a plugin (who, n) would set for `it`.
func primeOriginal(in *CaseIn, path, target string, it Item, who, n int) {
	tmp := NewAdjust()
	if path == "adjust" {
		SetAdj(tmp, it, who, n)
		c := &in.Container
		switch it.Kind {
		case "annotation":
			c.Annotations = append(c.Annotations, tmp.Annotations...)
		case "mount":
			c.Mounts = append(c.Mounts, tmp.Mounts...)
		case "device":
			c.Devices = append(c.Devices, tmp.Devices...)
		case "env":
			for _, e := range tmp.Env {
				c.Env = append(c.Env, e.Key+"="+e.Value)
			}
		case "args":
			c.Args = append([]string{}, tmp.Args...)
		case "cgroupsPath":
			c.CgroupsPath = tmp.CgroupsPath
		case "oomScoreAdj":
			c.OomScoreAdj = tmp.OomScoreAdj
		case "rlimit":
			c.Rlimits = append(c.Rlimits, tmp.Rlimits...)
		case "hugepage":
			SetRes(&c.Resources, it, who, n)
		case "cdi":
			// CDI names are not part of a container
		default:
			SetRes(&c.Resources, it, who, n)
		}
		return
	}
	if in.Kind == "update" && target == in.Container.Id && it.Kind != "hugepage" {
		if in.Resources == nil {
			in.Resources = FullResources(nil, 0)
		}
		SetRes(in.Resources, it, who, n)
	}
}
