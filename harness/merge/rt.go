package merge

import (
	_ "verifh/internal/quiet"

	"context"
	"fmt"
	"os"
	"path/filepath"
	"regexp"
	"sort"
	"strings"
	"sync"
	"time"

	nri "github.com/containerd/nri/pkg/adaptation"
	"github.com/containerd/nri/pkg/api"
	"github.com/containerd/nri/pkg/stub"
)

// Rig is one real Adaptation with NPlugins real stub plugins connected over its unix
// socket. Requests through one Adaptation are serialised by its own lock, so a Rig runs one
// case at a time; several Rigs run in parallel.
type Rig struct {
	dir     string
	rt      *nri.Adaptation
	plugins []*scripted
	mu      sync.Mutex // one case at a time
	script  *caseScript
	// WithSpec: also run the real OCI spec generator on the replies (C03)
	WithSpec bool
	Names    []string
}

const NPlugins = 6

// PluginName is the name the runtime knows plugin i by (index-name).
func PluginName(i int) string { return fmt.Sprintf("%02d-p%d", 10*(i+1), i) }

type caseScript struct {
	responses map[int]*PluginRsp // by plugin instance
	views     []interface{}
	order     []string
	built     map[int]*JBuilt // builder stream: what the plugin's programs built
	progErr   error           // a malformed program (harness input error, not an observation)
}

// answer is what plugin p returns: the generated response, or — builder stream — whatever its
// programs build with the real helpers of pkg/api.
func (p *scripted) answer(s *caseScript, r *PluginRsp, create bool) (*api.ContainerAdjustment, []*api.ContainerUpdate) {
	if r.Progs == nil {
		if create {
			return ToAdjust(r.Adjust), ToUpdates(r.Updates)
		}
		return nil, ToUpdates(r.Updates)
	}
	b, adj, upds, err := RunProgs(r.Progs, create)
	if err != nil && s.progErr == nil {
		s.progErr = err
	}
	b.Name, b.Inst = r.Name, r.Inst
	if s.built == nil {
		s.built = map[int]*JBuilt{}
	}
	s.built[p.inst] = b
	return adj, upds
}

type scripted struct {
	rig  *Rig
	inst int
	idx  string
	base string
	stub stub.Stub
	sync chan struct{}
}

func (p *scripted) name() string { return p.idx + "-" + p.base }

func (p *scripted) Synchronize(context.Context, []*api.PodSandbox, []*api.Container) ([]*api.ContainerUpdate, error) {
	close(p.sync)
	return nil, nil
}

func (p *scripted) CreateContainer(_ context.Context, _ *api.PodSandbox, c *api.Container) (*api.ContainerAdjustment, []*api.ContainerUpdate, error) {
	s := p.rig.script
	s.order = append(s.order, p.name())
	s.views = append(s.views, FromContainer(c))
	r := s.responses[p.inst]
	if r == nil {
		return nil, nil, nil
	}
	adj, upds := p.answer(s, r, true)
	return adj, upds, nil
}

func (p *scripted) UpdateContainer(_ context.Context, _ *api.PodSandbox, _ *api.Container, res *api.LinuxResources) ([]*api.ContainerUpdate, error) {
	s := p.rig.script
	s.order = append(s.order, p.name())
	s.views = append(s.views, FromResources(res))
	r := s.responses[p.inst]
	if r == nil {
		return nil, nil
	}
	_, upds := p.answer(s, r, false)
	return upds, nil
}

func (p *scripted) StopContainer(_ context.Context, _ *api.PodSandbox, c *api.Container) ([]*api.ContainerUpdate, error) {
	s := p.rig.script
	s.order = append(s.order, p.name())
	s.views = append(s.views, nil)
	r := s.responses[p.inst]
	if r == nil {
		return nil, nil
	}
	_, upds := p.answer(s, r, false)
	return upds, nil
}

// TwinNames is the plugin set of the "twins" rig: two plugin instances registered under the
// same index and name (NRI does not require names to be unique - think of a plugin being
// restarted or upgraded in place) and one ordinary plugin.
var TwinNames = []string{"10-p0", "10-p0", "20-p1"}

// StdNames are the six distinctly named plugins of the standard rig.
func StdNames() []string {
	var n []string
	for i := 0; i < NPlugins; i++ {
		n = append(n, PluginName(i))
	}
	return n
}

func NewRig(scratch string, n int, names []string) (*Rig, error) {
	dir, err := os.MkdirTemp(scratch, fmt.Sprintf("r%d-", n))
	if err != nil {
		return nil, err
	}
	g := &Rig{dir: dir, Names: names}
	syncFn := func(ctx context.Context, cb nri.SyncCB) error {
		_, err := cb(ctx, nil, nil)
		return err
	}
	updateFn := func(context.Context, []*nri.ContainerUpdate) ([]*nri.ContainerUpdate, error) { return nil, nil }
	g.rt, err = nri.New("verif-runtime", "0.0.1", syncFn, updateFn,
		nri.WithPluginPath(filepath.Join(dir, "plugins")),
		nri.WithPluginConfigPath(filepath.Join(dir, "conf.d")),
		nri.WithSocketPath(filepath.Join(dir, "nri.sock")))
	if err != nil {
		return nil, err
	}
	if err := g.rt.Start(); err != nil {
		return nil, err
	}
	// register in scrambled order: the runtime must order plugins by index, not by arrival
	order := []int{3, 0, 5, 1, 4, 2}
	if len(names) != NPlugins {
		order = nil
		for i := len(names) - 1; i >= 0; i-- {
			order = append(order, i)
		}
	}
	for _, i := range order {
		p := &scripted{rig: g, inst: i, idx: names[i][:2], base: names[i][3:], sync: make(chan struct{})}
		p.stub, err = stub.New(p, stub.WithPluginName(p.base), stub.WithPluginIdx(p.idx),
			stub.WithSocketPath(filepath.Join(dir, "nri.sock")),
			stub.WithOnClose(func() {})) // the default onClose handler exits the process
		if err != nil {
			return nil, err
		}
		if err := p.stub.Start(context.Background()); err != nil {
			return nil, err
		}
		select {
		case <-p.sync:
		case <-time.After(20 * time.Second):
			return nil, fmt.Errorf("plugin %s did not synchronize", p.name())
		}
		g.plugins = append(g.plugins, p)
	}
	// a plugin is active only after its synchronization returned on the runtime side; a
	// no-op request that reaches every plugin confirms it
	deadline := time.Now().Add(20 * time.Second)
	for {
		g.script = &caseScript{responses: map[int]*PluginRsp{}}
		_, err := g.rt.StopContainer(context.Background(), &api.StopContainerRequest{
			Pod: &api.PodSandbox{Id: "pod0"}, Container: &api.Container{Id: "warmup"}})
		if err == nil && len(g.script.order) == len(names) {
			break
		}
		if time.Now().After(deadline) {
			return nil, fmt.Errorf("plugins not active: %d/%d (%v)", len(g.script.order), len(names), err)
		}
		time.Sleep(5 * time.Millisecond)
	}
	return g, nil
}

func (g *Rig) Close() {
	for _, p := range g.plugins {
		p.stub.Stop()
	}
	g.rt.Stop()
	os.RemoveAll(g.dir)
}

// ---- one case

type PluginRsp struct {
	Name    string    `json:"name"`
	Inst    int       `json:"inst"` // position in the rig's plugin list (names may repeat)
	Adjust  *JAdjust  `json:"adjust"`
	Updates []JUpdate `json:"updates"`
	// builder stream: the handler runs these programs of helper calls instead (builder.go)
	Progs *JProgs `json:"progs,omitempty"`
}

type CaseIn struct {
	Kind      string      `json:"kind"` // create | update | stop
	Container JContainer  `json:"container"`
	Resources *JResources `json:"resources"` // update: what the runtime asks for
	Sparse    bool        `json:"sparse"`    // runtime leaves empty sections nil
	Plugins   []PluginRsp `json:"plugins"`   // in index order; absent plugin = empty response
	Stream    string      `json:"stream"`
	Shape     string      `json:"shape,omitempty"`
}

type JErr struct {
	Kind    string `json:"kind"` // none | conflict | selfupdate | other
	P       string `json:"p"`
	Q       string `json:"q"`
	Subject string `json:"subject"`
	Text    string `json:"text"`
	// Loose: the text did not have the wording this harness knows; P and Q are the first two
	// plugin names found in it (in order of appearance), Subject is empty and the driver looks
	// for the item's key in Text. Keeps a reworded error message from raising an alarm.
	Loose bool `json:"loose"`
}

type CaseObs struct {
	Err     JErr          `json:"err"`
	Adjust  *JAdjust      `json:"adjust"`
	Updates []*JUpdate    `json:"updates"`
	Invoked []string      `json:"invoked"`
	Views   []interface{} `json:"views"` // per invoked plugin: JContainer (create) / JResources (update) / null (stop)
	// creation requests that succeeded: the original container's OCI spec after applying the
	// combined adjustment / after applying each plugin's adjustment in turn (real generator)
	Comb   *SpecFamilies `json:"comb"`
	Seq    *SpecFamilies `json:"seq"`
	GenErr string        `json:"genErr"`
	// builder stream: per plugin that was given programs, what they built (in plugin order)
	Built []*JBuilt `json:"built,omitempty"`
}

var (
	reConflict = regexp.MustCompile(`^plugins "([^"]*)" and "([^"]*)" both tried to set (.*)$`)
	reSelf     = regexp.MustCompile(`^plugin "([^"]*)" asked update of "([^"]*)" during creation$`)
)

func (g *Rig) classify(err error) JErr {
	if err == nil {
		return JErr{Kind: "none"}
	}
	t := err.Error()
	if m := reConflict.FindStringSubmatch(t); m != nil {
		return JErr{Kind: "conflict", P: m[1], Q: m[2], Subject: m[3], Text: t}
	}
	if m := reSelf.FindStringSubmatch(t); m != nil {
		return JErr{Kind: "selfupdate", P: m[1], Subject: m[2], Text: t}
	}
	// unknown wording: which plugins does the text name, and in which order?
	type occ struct {
		at   int
		name string
	}
	var occs []occ
	seen := map[string]bool{}
	for _, n := range g.Names {
		if seen[n] {
			continue
		}
		seen[n] = true
		for from := 0; ; {
			i := strings.Index(t[from:], n)
			if i < 0 {
				break
			}
			occs = append(occs, occ{from + i, n})
			from += i + len(n)
		}
	}
	sort.Slice(occs, func(i, j int) bool { return occs[i].at < occs[j].at })
	switch {
	case len(occs) >= 2:
		return JErr{Kind: "conflict", P: occs[0].name, Q: occs[1].name, Text: t, Loose: true}
	case len(occs) == 1:
		// one plugin named: the only such error of the collector is the update of the
		// container being created
		for _, c := range []string{"ctr0", "ctrA", "ctrB"} {
			if strings.Contains(t, c) {
				return JErr{Kind: "selfupdate", P: occs[0].name, Subject: c, Text: t, Loose: true}
			}
		}
	}
	return JErr{Kind: "other", Text: t}
}

func (g *Rig) RunCase(in *CaseIn) (*CaseObs, error) {
	g.mu.Lock()
	defer g.mu.Unlock()
	s := &caseScript{responses: map[int]*PluginRsp{}}
	for i := range in.Plugins {
		s.responses[in.Plugins[i].Inst] = &in.Plugins[i]
	}
	g.script = s
	obs := &CaseObs{Updates: []*JUpdate{}}
	ctx, cancel := context.WithTimeout(context.Background(), 30*time.Second)
	defer cancel()
	pod := &api.PodSandbox{Id: "pod0", Name: "pod0"}
	switch in.Kind {
	case "create":
		rpl, err := g.rt.CreateContainer(ctx, &api.CreateContainerRequest{Pod: pod, Container: ToContainer(&in.Container, in.Sparse)})
		obs.Err = g.classify(err)
		if err == nil {
			obs.Adjust = FromAdjust(rpl.GetAdjust())
			for _, u := range rpl.GetUpdate() {
				obs.Updates = append(obs.Updates, FromUpdate(u))
			}
			if g.WithSpec {
				comb, seq, gerr := CombinedVsSequential(in, rpl.GetAdjust())
				obs.Comb, obs.Seq = comb, seq
				if gerr != nil {
					obs.GenErr = gerr.Error()
				}
			}
		}
	case "update":
		req := &api.UpdateContainerRequest{Pod: pod, Container: ToContainer(&in.Container, false),
			LinuxResources: ToResources(in.Resources, in.Sparse)}
		rpl, err := g.rt.UpdateContainer(ctx, req)
		obs.Err = g.classify(err)
		if err == nil {
			for _, u := range rpl.GetUpdate() {
				obs.Updates = append(obs.Updates, FromUpdate(u))
			}
		}
	case "stop":
		rpl, err := g.rt.StopContainer(ctx, &api.StopContainerRequest{Pod: pod, Container: ToContainer(&in.Container, false)})
		obs.Err = g.classify(err)
		if err == nil {
			for _, u := range rpl.GetUpdate() {
				obs.Updates = append(obs.Updates, FromUpdate(u))
			}
		}
	default:
		return nil, fmt.Errorf("unknown case kind %q", in.Kind)
	}
	obs.Invoked = append([]string{}, s.order...)
	obs.Views = append([]interface{}{}, s.views...)
	if s.progErr != nil {
		return nil, s.progErr
	}
	for i := range in.Plugins {
		if in.Plugins[i].Progs == nil {
			continue
		}
		b := s.built[in.Plugins[i].Inst]
		if b == nil { // the request failed before this plugin was asked
			b = &JBuilt{Name: in.Plugins[i].Name, Inst: in.Plugins[i].Inst, Updates: []*JUpdate{}}
		}
		obs.Built = append(obs.Built, b)
	}
	return obs, nil
}
