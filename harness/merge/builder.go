package merge

// Builder stream: the plugins of a case are given PROGRAMS of helper calls
// (pkg/api/adjustment.go, pkg/api/update.go). The real stub plugin's handler executes them
// with the real helpers on a fresh api.ContainerAdjustment / api.ContainerUpdate, the messages
// built are recorded (obs.built, nil-ness of sub-messages preserved) and returned to the
// runtime exactly like a generated response.

import (
	"fmt"
	"math/rand"

	"github.com/containerd/nri/pkg/api"
)

// JArgs carries the arguments of one helper call; which fields are read depends on the op.
type JArgs struct {
	Key    string   `json:"key"`
	Value  string   `json:"value"`
	Strs   []string `json:"strs"` // null = nil slice
	Int    *int64   `json:"int"`  // null = nil pointer (SetLinuxOomScoreAdj)
	Uint   uint64   `json:"uint"`
	Hard   uint64   `json:"hard"`
	Soft   uint64   `json:"soft"`
	Mount  *JMount  `json:"mount"`
	Device *JDevice `json:"device"`
	Hooks  *JHooks  `json:"hooks"` // null = AddHooks(nil)
}

type JCall struct {
	Op   string `json:"op"`
	Args JArgs  `json:"args"`
}

// JProgs is what one plugin's handler runs: Adjust == nil means the handler returns a nil
// adjustment (creation requests only), one program per returned update.
type JProgs struct {
	Adjust  []JCall   `json:"adjust"`
	Updates [][]JCall `json:"updates"`
}

// JBuilt is what the programs of one plugin built.
type JBuilt struct {
	Name    string     `json:"name"`
	Inst    int        `json:"inst"`
	Invoked bool       `json:"invoked"`
	Panic   string     `json:"panic"` // first line of a panic raised by a helper ("" = none)
	Adjust  *JAdjust   `json:"adjust"`
	Updates []*JUpdate `json:"updates"`
}

// ---- exact recording: a nil section stays null

func fromResourcesExact(r *api.LinuxResources) *JResources {
	if r == nil {
		return nil
	}
	j := FromResources(r)
	if r.Memory == nil {
		j.Memory = nil
	}
	if r.Cpu == nil {
		j.Cpu = nil
	}
	return &j
}

func FromAdjustExact(a *api.ContainerAdjustment) *JAdjust {
	j := FromAdjust(a)
	if j == nil {
		return nil
	}
	j.Resources = fromResourcesExact(a.GetLinux().GetResources())
	return j
}

func FromUpdateExact(u *api.ContainerUpdate) *JUpdate {
	j := FromUpdate(u)
	if j == nil {
		return nil
	}
	j.Resources = fromResourcesExact(u.GetLinux().GetResources())
	return j
}

// ---- execution with the real helpers

func i64(p *int64) int64 {
	if p == nil {
		return 0
	}
	return *p
}

// resourceSetter is the method set adjustment.go and update.go share.
type resourceSetter interface {
	SetLinuxMemoryLimit(int64)
	SetLinuxMemoryReservation(int64)
	SetLinuxMemorySwap(int64)
	SetLinuxMemoryKernel(int64)
	SetLinuxMemoryKernelTCP(int64)
	SetLinuxMemorySwappiness(uint64)
	SetLinuxMemoryDisableOomKiller()
	SetLinuxMemoryUseHierarchy()
	SetLinuxCPUShares(uint64)
	SetLinuxCPUQuota(int64)
	SetLinuxCPUPeriod(int64)
	SetLinuxCPURealtimeRuntime(int64)
	SetLinuxCPURealtimePeriod(uint64)
	SetLinuxCPUSetCPUs(string)
	SetLinuxCPUSetMems(string)
	SetLinuxPidLimits(int64)
	AddLinuxHugepageLimit(string, uint64)
	SetLinuxBlockIOClass(string)
	SetLinuxRDTClass(string)
	AddLinuxUnified(string, string)
}

func execResource(m resourceSetter, c *JCall) bool {
	a := &c.Args
	switch c.Op {
	case "SetLinuxMemoryLimit":
		m.SetLinuxMemoryLimit(i64(a.Int))
	case "SetLinuxMemoryReservation":
		m.SetLinuxMemoryReservation(i64(a.Int))
	case "SetLinuxMemorySwap":
		m.SetLinuxMemorySwap(i64(a.Int))
	case "SetLinuxMemoryKernel":
		m.SetLinuxMemoryKernel(i64(a.Int))
	case "SetLinuxMemoryKernelTCP":
		m.SetLinuxMemoryKernelTCP(i64(a.Int))
	case "SetLinuxMemorySwappiness":
		m.SetLinuxMemorySwappiness(a.Uint)
	case "SetLinuxMemoryDisableOomKiller":
		m.SetLinuxMemoryDisableOomKiller()
	case "SetLinuxMemoryUseHierarchy":
		m.SetLinuxMemoryUseHierarchy()
	case "SetLinuxCPUShares":
		m.SetLinuxCPUShares(a.Uint)
	case "SetLinuxCPUQuota":
		m.SetLinuxCPUQuota(i64(a.Int))
	case "SetLinuxCPUPeriod":
		m.SetLinuxCPUPeriod(i64(a.Int))
	case "SetLinuxCPURealtimeRuntime":
		m.SetLinuxCPURealtimeRuntime(i64(a.Int))
	case "SetLinuxCPURealtimePeriod":
		m.SetLinuxCPURealtimePeriod(a.Uint)
	case "SetLinuxCPUSetCPUs":
		m.SetLinuxCPUSetCPUs(a.Value)
	case "SetLinuxCPUSetMems":
		m.SetLinuxCPUSetMems(a.Value)
	case "SetLinuxPidLimits":
		m.SetLinuxPidLimits(i64(a.Int))
	case "AddLinuxHugepageLimit":
		m.AddLinuxHugepageLimit(a.Key, a.Uint)
	case "SetLinuxBlockIOClass":
		m.SetLinuxBlockIOClass(a.Value)
	case "SetLinuxRDTClass":
		m.SetLinuxRDTClass(a.Value)
	case "AddLinuxUnified":
		m.AddLinuxUnified(a.Key, a.Value)
	default:
		return false
	}
	return true
}

func execAdjustCall(adj *api.ContainerAdjustment, c *JCall) error {
	a := &c.Args
	switch c.Op {
	case "AddAnnotation":
		adj.AddAnnotation(a.Key, a.Value)
	case "RemoveAnnotation":
		adj.RemoveAnnotation(a.Key)
	case "AddMount":
		if a.Mount == nil {
			return fmt.Errorf("AddMount without mount")
		}
		adj.AddMount(ToMounts([]JMount{*a.Mount})[0])
	case "RemoveMount":
		adj.RemoveMount(a.Key)
	case "AddEnv":
		adj.AddEnv(a.Key, a.Value)
	case "RemoveEnv":
		adj.RemoveEnv(a.Key)
	case "SetArgs":
		adj.SetArgs(a.Strs)
	case "UpdateArgs":
		adj.UpdateArgs(a.Strs)
	case "AddHooks":
		if a.Hooks == nil {
			adj.AddHooks(nil)
		} else {
			adj.AddHooks(ToHooks(*a.Hooks))
		}
	case "AddRlimit":
		adj.AddRlimit(a.Key, a.Hard, a.Soft)
	case "AddDevice":
		if a.Device == nil {
			return fmt.Errorf("AddDevice without device")
		}
		adj.AddDevice(ToDevices([]JDevice{*a.Device})[0])
	case "RemoveDevice":
		adj.RemoveDevice(a.Key)
	case "AddCDIDevice":
		adj.AddCDIDevice(&api.CDIDevice{Name: a.Key})
	case "SetLinuxCgroupsPath":
		adj.SetLinuxCgroupsPath(a.Value)
	case "SetLinuxOomScoreAdj":
		if a.Int == nil {
			adj.SetLinuxOomScoreAdj(nil)
		} else {
			v := int(*a.Int)
			adj.SetLinuxOomScoreAdj(&v)
		}
	default:
		if !execResource(adj, c) {
			return fmt.Errorf("unknown adjustment helper %q", c.Op)
		}
	}
	return nil
}

func execUpdateCall(u *api.ContainerUpdate, c *JCall) error {
	switch c.Op {
	case "SetContainerId":
		u.SetContainerId(c.Args.Value)
	case "SetIgnoreFailure":
		u.SetIgnoreFailure()
	default:
		if !execResource(u, c) {
			return fmt.Errorf("unknown update helper %q", c.Op)
		}
	}
	return nil
}

// RunProgs executes a plugin's programs. A panic raised by a helper is an observation: the
// handler then answers with an empty response (a real plugin process would have died).
func RunProgs(p *JProgs, create bool) (b *JBuilt, adj *api.ContainerAdjustment, upds []*api.ContainerUpdate, err error) {
	b = &JBuilt{Invoked: true, Updates: []*JUpdate{}}
	defer func() {
		if r := recover(); r != nil {
			b.Panic = fmt.Sprint(r)
			b.Adjust, b.Updates = nil, []*JUpdate{}
			adj, upds = nil, nil
		}
	}()
	if create && p.Adjust != nil {
		adj = &api.ContainerAdjustment{}
		for i := range p.Adjust {
			if err = execAdjustCall(adj, &p.Adjust[i]); err != nil {
				return
			}
		}
	}
	for _, prog := range p.Updates {
		u := &api.ContainerUpdate{}
		for i := range prog {
			if err = execUpdateCall(u, &prog[i]); err != nil {
				return
			}
		}
		upds = append(upds, u)
	}
	b.Adjust = FromAdjustExact(adj)
	for _, u := range upds {
		b.Updates = append(b.Updates, FromUpdateExact(u))
	}
	return
}

// ---- generators

func call(op string, a JArgs) JCall { return JCall{Op: op, Args: a} }

var ResourceHelpers = []string{"SetLinuxMemoryLimit", "SetLinuxMemoryReservation", "SetLinuxMemorySwap",
	"SetLinuxMemoryKernel", "SetLinuxMemoryKernelTCP", "SetLinuxMemorySwappiness", "SetLinuxMemoryDisableOomKiller",
	"SetLinuxMemoryUseHierarchy", "SetLinuxCPUShares", "SetLinuxCPUQuota", "SetLinuxCPUPeriod",
	"SetLinuxCPURealtimeRuntime", "SetLinuxCPURealtimePeriod", "SetLinuxCPUSetCPUs", "SetLinuxCPUSetMems",
	"SetLinuxPidLimits", "AddLinuxHugepageLimit", "SetLinuxBlockIOClass", "SetLinuxRDTClass", "AddLinuxUnified"}

var AdjustOnlyHelpers = []string{"AddAnnotation", "RemoveAnnotation", "AddMount", "RemoveMount", "AddEnv", "RemoveEnv",
	"SetArgs", "UpdateArgs", "AddHooks", "AddRlimit", "AddDevice", "RemoveDevice", "AddCDIDevice",
	"SetLinuxCgroupsPath", "SetLinuxOomScoreAdj"}

// helperKind names the item family a helper writes (the key alphabet to draw from) and the
// helper that removes it ("" = the family has no removal form).
var helperKind = map[string]struct{ kind, remover string }{
	"AddAnnotation": {"annotation", "RemoveAnnotation"}, "RemoveAnnotation": {"annotation", ""},
	"AddMount": {"mount", "RemoveMount"}, "RemoveMount": {"mount", ""},
	"AddEnv": {"env", "RemoveEnv"}, "RemoveEnv": {"env", ""},
	"AddDevice": {"device", "RemoveDevice"}, "RemoveDevice": {"device", ""},
	"SetArgs": {"args", ""}, "UpdateArgs": {"args", ""},
	"AddHooks": {"hooks", ""}, "AddRlimit": {"rlimit", ""}, "AddCDIDevice": {"cdi", ""},
	"SetLinuxCgroupsPath": {"cgroupsPath", ""}, "SetLinuxOomScoreAdj": {"oomScoreAdj", ""},
	"AddLinuxHugepageLimit": {"hugepage", ""}, "AddLinuxUnified": {"unified", ""},
}

var adderOf = map[string]string{"RemoveAnnotation": "AddAnnotation", "RemoveMount": "AddMount", "RemoveEnv": "AddEnv",
	"RemoveDevice": "AddDevice"}

// mkCall builds a call of helper `op` on key `key` with a value that names its writer.
func mkCall(op, key string, who, n int) JCall {
	v := int64(1000*(who+1) + n)
	a := JArgs{}
	switch op {
	case "AddAnnotation":
		a.Key, a.Value = key, fmt.Sprintf("a-%d-%d", who, n)
		if (who+n)%3 == 1 {
			a.Value = fmt.Sprintf("Ärger-%d-%d-ß", who, n)
		}
	case "RemoveAnnotation", "RemoveMount", "RemoveEnv", "RemoveDevice":
		a.Key = key
	case "AddMount":
		m := mkMount(key, who, n)
		a.Mount = &m
	case "AddEnv":
		a.Key, a.Value = key, fmt.Sprintf("e-%d-%d", who, n)
		if (who+n)%3 == 2 {
			// not ASCII (ß Ö Ł: second bytes in the C1 range): helpers pass strings on byte for byte
			a.Value = fmt.Sprintf("Grüße-%d-%d-ÖŁ", who, n)
		}
	case "SetArgs", "UpdateArgs":
		a.Strs = []string{fmt.Sprintf("cmd-p%d", who), fmt.Sprintf("arg%d", n)}
	case "AddHooks":
		hk := JHook{Path: fmt.Sprintf("/hook/p%d", who), Args: []string{"h", fmt.Sprint(n)}, Env: []string{"H=1"}}
		if n%2 == 0 {
			hk.Timeout = ip(int64(5 + who))
		}
		h := JHooks{}
		// a different non-empty subset of the six kinds for every (who, n)
		mask := 1 + (who*7+n*13)%63
		for k := 0; k < 6; k++ {
			if mask&(1<<k) == 0 {
				continue
			}
			one := hk
			one.Args = []string{"h", fmt.Sprint(n), fmt.Sprint(k)}
			switch k {
			case 0:
				h.Prestart = []JHook{one}
			case 1:
				h.CreateRuntime = []JHook{one}
			case 2:
				h.CreateContainer = []JHook{one}
			case 3:
				h.StartContainer = []JHook{one}
			case 4:
				h.Poststart = []JHook{one}
			case 5:
				h.Poststop = []JHook{one, one}
			}
		}
		a.Hooks = &h
	case "AddRlimit":
		a.Key, a.Hard, a.Soft = key, uint64(2000+10*who+n), uint64(1000+10*who+n)
	case "AddDevice":
		d := mkDevice(key, who, n)
		a.Device = &d
	case "AddCDIDevice":
		a.Key = key
	case "SetLinuxCgroupsPath":
		a.Value = fmt.Sprintf("/cg/p%d/%d", who, n)
	case "SetLinuxOomScoreAdj":
		a.Int = ip(int64(-100 + 10*who + n))
	case "SetLinuxMemoryLimit", "SetLinuxMemoryReservation", "SetLinuxMemorySwap", "SetLinuxMemoryKernel",
		"SetLinuxMemoryKernelTCP", "SetLinuxCPUQuota", "SetLinuxCPUPeriod", "SetLinuxCPURealtimeRuntime", "SetLinuxPidLimits":
		a.Int = ip(v)
	case "SetLinuxMemorySwappiness", "SetLinuxCPUShares", "SetLinuxCPURealtimePeriod":
		a.Uint = uint64(v)
	case "SetLinuxMemoryDisableOomKiller", "SetLinuxMemoryUseHierarchy", "SetIgnoreFailure":
	case "SetLinuxCPUSetCPUs":
		a.Value = fmt.Sprintf("%d-%d", who, who+n+1)
	case "SetLinuxCPUSetMems":
		a.Value = fmt.Sprintf("%d", who+n)
	case "AddLinuxHugepageLimit":
		a.Key, a.Uint = key, uint64(v)
	case "SetLinuxBlockIOClass":
		a.Value = fmt.Sprintf("bio-%d-%d", who, n)
	case "SetLinuxRDTClass":
		a.Value = fmt.Sprintf("rdt-%d-%d", who, n)
	case "AddLinuxUnified":
		a.Key, a.Value = key, fmt.Sprintf("u-%d-%d", who, n)
	case "SetContainerId":
		a.Value = key
	default:
		panic("mkCall: " + op)
	}
	return call(op, a)
}

func keyFor(op string, i int) string {
	hk, ok := helperKind[op]
	if !ok {
		return ""
	}
	ks, ok := keyAlphabet[hk.kind]
	if !ok {
		return ""
	}
	return ks[i%len(ks)]
}

func progPlugins() []PluginRsp {
	rsp := make([]PluginRsp, NPlugins)
	for i := range rsp {
		rsp[i] = PluginRsp{Name: PluginName(i), Inst: i, Updates: []JUpdate{}}
	}
	return rsp
}

func adjProg(calls ...JCall) *JProgs { return &JProgs{Adjust: calls, Updates: [][]JCall{}} }
func updProgs(us ...[]JCall) *JProgs { return &JProgs{Updates: us} }

// BuilderSystematic: every helper × {alone, after Remove, twice, Remove after Add} ×
// {first plugin, after a plugin that set the same item}; update helpers additionally × request
// kind × {third-party target, the container being updated} × {plain, ignore-failure}.
func BuilderSystematic() []sysCase {
	var out []sysCase
	add := func(id, kind, shape string, rsp []PluginRsp, full bool) {
		in := CaseIn{Kind: kind, Container: BaseContainer("ctr0", nil, 0), Stream: "builder-sys", Shape: shape, Plugins: rsp}
		if full {
			in.Container = BaseContainer("ctr0", nil, 1)
		}
		if kind == "update" {
			in.Resources = FullResources(nil, 0)
			if full {
				in.Resources = FullResources(nil, 1)
			}
		}
		out = append(out, sysCase{id, in})
	}
	all := append(append([]string{}, AdjustOnlyHelpers...), ResourceHelpers...)
	for _, h := range all {
		key := keyFor(h, 0)
		rm := helperKind[h].remover
		for _, shape := range []string{"alone", "after-remove", "twice", "remove-after-add", "twice-other-key"} {
			if (shape == "after-remove" || shape == "remove-after-add") && rm == "" && h != "SetArgs" && h != "UpdateArgs" {
				continue
			}
			if shape == "twice-other-key" && keyFor(h, 1) == key {
				continue
			}
			for pos := 0; pos < 2; pos++ {
				rsp := progPlugins()
				who := 0
				if pos == 1 {
					// an earlier plugin sets the same item with the plain setter of the family
					setter := h
					if a, ok := adderOf[h]; ok {
						setter = a
					}
					if h == "UpdateArgs" {
						setter = "SetArgs"
					}
					rsp[0].Progs = adjProg(mkCall(setter, key, 0, 0))
					who = 2
				}
				var prog []JCall
				switch shape {
				case "alone":
					prog = []JCall{mkCall(h, key, who, 0)}
				case "after-remove":
					if rm != "" {
						prog = []JCall{mkCall(rm, key, who, 0), mkCall(h, key, who, 1)}
					} else { // args: the replace marker first, then a plain SetArgs / a second UpdateArgs
						prog = []JCall{mkCall("UpdateArgs", key, who, 0), mkCall(h, key, who, 1)}
					}
				case "twice":
					prog = []JCall{mkCall(h, key, who, 0), mkCall(h, key, who, 1)}
				case "twice-other-key":
					prog = []JCall{mkCall(h, key, who, 0), mkCall(h, keyFor(h, 1), who, 1)}
				case "remove-after-add":
					if rm != "" {
						prog = []JCall{mkCall(h, key, who, 0), mkCall(rm, key, who, 1)}
					} else {
						prog = []JCall{mkCall(h, key, who, 0), mkCall("UpdateArgs", key, who, 1)}
					}
				}
				rsp[who].Progs = adjProg(prog...)
				if _, isRemover := adderOf[h]; isRemover && pos == 1 {
					// the removal released the first plugin's claim: a third plugin may set it again
					rsp[4].Progs = adjProg(mkCall(adderOf[h], key, 4, 2))
				}
				add(fmt.Sprintf("bsys-A.%s-%s-%d", h, shape, pos), "create", shape, rsp, pos == 1 && shape == "alone")
			}
		}
	}
	upd := append([]string{"SetContainerId", "SetIgnoreFailure"}, ResourceHelpers...)
	paths := []struct{ kind, target string }{{"create", "ctrA"}, {"update", "ctrA"}, {"update", "ctr0"}, {"stop", "ctrA"}}
	for _, h := range upd {
		key := keyFor(h, 0)
		for _, p := range paths {
			for _, shape := range []string{"alone", "twice", "ignore-failure", "retargeted", "no-target", "two-updates"} {
				for pos := 0; pos < 2; pos++ {
					rsp := progPlugins()
					who := 0
					// the resource helper whose item the two plugins contend for
					rh := h
					if h == "SetContainerId" || h == "SetIgnoreFailure" {
						rh = "SetLinuxMemoryLimit"
					}
					if pos == 1 {
						rsp[0].Progs = updProgs([]JCall{mkCall("SetContainerId", p.target, 0, 0), mkCall(rh, key, 0, 0)})
						who = 3
					}
					var us [][]JCall
					base := []JCall{mkCall("SetContainerId", p.target, who, 0)}
					switch shape {
					case "alone":
						us = [][]JCall{append(base, mkCall(rh, key, who, 0))}
					case "twice":
						us = [][]JCall{append(base, mkCall(rh, key, who, 0), mkCall(rh, key, who, 1))}
					case "ignore-failure":
						// another field first: an ignored conflicting update must lose that one too
						other := "SetLinuxCPUShares"
						if rh == other {
							other = "SetLinuxMemoryLimit"
						}
						us = [][]JCall{append(base, mkCall(other, "", who, 5), mkCall("SetIgnoreFailure", "", who, 0), mkCall(rh, key, who, 0))}
					case "retargeted":
						us = [][]JCall{{mkCall("SetContainerId", "ctrB", who, 0), mkCall(rh, key, who, 0), mkCall("SetContainerId", p.target, who, 0)}}
					case "no-target":
						us = [][]JCall{{mkCall(rh, key, who, 0)}}
					case "two-updates":
						us = [][]JCall{append(base, mkCall(rh, key, who, 0)),
							{mkCall("SetContainerId", "ctrB", who, 0), mkCall(rh, key, who, 1)}}
					}
					rsp[who].Progs = updProgs(us...)
					add(fmt.Sprintf("bsys-U.%s-%s-%s%s-%d", h, shape, p.kind, p.target, pos), p.kind, shape, rsp, shape == "alone" && pos == 0)
				}
			}
		}
	}
	return out
}

// ownHelper picks one of the resource helpers that are plugin `who`'s own (index ≡ who mod 6),
// so that two plugins rarely name the same field.
func ownHelper(r *rand.Rand, who int) int {
	n := (len(ResourceHelpers) - who + NPlugins - 1) / NPlugins
	return who + NPlugins*r.Intn(n)
}

var keyedHelpers = []string{"AddAnnotation", "AddMount", "AddEnv", "AddDevice"}

// randomAdjProg: 1–12 calls, mostly on the plugin's own keys so that chains are mostly
// conflict-free; keys from the small alphabets so that collisions and remove/add pairs happen.
func (g *Gen) randomAdjProg(who int, stray float64) []JCall {
	n := 1 + g.R.Intn(12)
	var prog []JCall
	// a slice-family key appended twice is the plugin's conflict with itself: rare on purpose
	used := map[string]bool{}
	fresh := func(fam, k string) bool {
		if used[fam+"/"+k] && !g.chance(0.02) {
			return false
		}
		used[fam+"/"+k] = true
		return true
	}
	for tries := 0; len(prog) < n && tries < 60; tries++ {
		switch x := g.R.Intn(20); {
		case x < 8: // a keyed family: add, remove, remove+add, add+remove
			h := keyedHelpers[g.R.Intn(len(keyedHelpers))]
			k := g.key(helperKind[h].kind, who+6*g.R.Intn(2), stray)
			rm := helperKind[h].remover
			switch g.R.Intn(6) {
			case 0:
				prog = append(prog, mkCall(rm, k, who, len(prog)))
			case 1:
				if h == "AddAnnotation" || fresh(h, k) {
					prog = append(prog, mkCall(rm, k, who, len(prog)), mkCall(h, k, who, len(prog)))
				}
			case 2:
				if h == "AddAnnotation" || fresh(h, k) {
					prog = append(prog, mkCall(h, k, who, len(prog)), mkCall(rm, k, who, len(prog)))
				}
			default:
				if h == "AddAnnotation" || fresh(h, k) {
					prog = append(prog, mkCall(h, k, who, len(prog)))
				}
			}
		case x < 13: // a resource helper, mostly one of the plugin's own (who, who+6, who+12)
			j := g.R.Intn(len(ResourceHelpers))
			if !g.chance(stray) {
				j = ownHelper(g.R, who)
			}
			h := ResourceHelpers[j]
			k := g.key(helperKind[h].kind, who, stray)
			if h != "AddLinuxHugepageLimit" || fresh(h, k) {
				prog = append(prog, mkCall(h, k, who, len(prog)))
			}
		case x < 14:
			if who == 1 || g.chance(stray) {
				h := []string{"SetArgs", "UpdateArgs", "UpdateArgs"}[g.R.Intn(3)]
				prog = append(prog, mkCall(h, "", who, len(prog)))
			}
		case x < 16:
			prog = append(prog, mkCall("AddHooks", "", who, g.R.Intn(40)))
		case x < 17:
			if k := g.key("rlimit", who, stray); fresh("rlimit", k) {
				prog = append(prog, mkCall("AddRlimit", k, who, len(prog)))
			}
		case x < 18:
			if k := g.key("cdi", who, stray); fresh("cdi", k) {
				prog = append(prog, mkCall("AddCDIDevice", k, who, len(prog)))
			}
		case x < 19:
			if who == 2 || g.chance(stray) {
				prog = append(prog, mkCall("SetLinuxCgroupsPath", "", who, len(prog)))
			}
		default:
			if who == 4 || g.chance(stray) {
				prog = append(prog, mkCall("SetLinuxOomScoreAdj", "", who, len(prog)))
			}
		}
	}
	if len(prog) == 0 {
		prog = append(prog, mkCall("AddAnnotation", g.key("annotation", who, 0), who, 0))
	}
	return prog
}

func (g *Gen) randomUpdProg(who int, target string, stray float64) []JCall {
	prog := []JCall{mkCall("SetContainerId", target, who, 0)}
	n := 1 + g.R.Intn(5)
	hp := false
	for i := 0; i < n; i++ {
		j := g.R.Intn(len(ResourceHelpers))
		if !g.chance(stray) {
			j = ownHelper(g.R, who)
		}
		h := ResourceHelpers[j]
		if h == "AddLinuxHugepageLimit" {
			if hp && !g.chance(0.05) {
				continue
			}
			hp = true
		}
		prog = append(prog, mkCall(h, g.key(helperKind[h].kind, who, stray), who, i))
	}
	if g.chance(0.2) {
		at := 1 + g.R.Intn(len(prog))
		prog = append(prog[:at], append([]JCall{mkCall("SetIgnoreFailure", "", who, 0)}, prog[at:]...)...)
	}
	return prog
}

// BuilderRandom builds one case whose plugins all answer with programs.
func (g *Gen) BuilderRandom(i int) (string, CaseIn) {
	kinds := []string{"create", "create", "create", "update", "stop"}
	kind := kinds[g.R.Intn(len(kinds))]
	stray := 0.05
	if g.chance(0.2) {
		stray = 0.35
	}
	in := CaseIn{Kind: kind, Container: BaseContainer("ctr0", g.R, []float64{0, 0.3, 1}[g.R.Intn(3)]),
		Sparse: g.chance(0.3), Stream: "builder-rnd", Shape: "random"}
	if kind == "update" && g.chance(0.85) {
		in.Resources = FullResources(g.R, []float64{0, 0.4, 1}[g.R.Intn(3)])
	}
	np := 1 + g.R.Intn(4)
	active := map[int]bool{}
	for _, p := range g.R.Perm(NPlugins)[:np] {
		active[p] = true
	}
	in.Plugins = progPlugins()
	for p := 0; p < NPlugins; p++ {
		if !active[p] {
			continue
		}
		pr := &JProgs{Updates: [][]JCall{}}
		if kind == "create" && g.chance(0.9) {
			pr.Adjust = g.randomAdjProg(p, stray)
		}
		if g.chance(0.5) {
			used := map[string]bool{}
			for j := 0; j < 1+g.R.Intn(3); j++ {
				t := targets[g.R.Intn(len(targets))]
				if kind != "create" && g.chance(0.4) {
					t = "ctr0"
				}
				if used[t] && !g.chance(0.1) {
					continue
				}
				used[t] = true
				pr.Updates = append(pr.Updates, g.randomUpdProg(p, t, stray))
			}
		}
		in.Plugins[p].Progs = pr
	}
	return fmt.Sprintf("brnd-%d", i), in
}

// BuilderOdd: arguments a careless plugin may pass — empty keys, keys that themselves begin with
// the removal marker, nil / empty slices and pointers, extreme numbers.
func BuilderOdd() []sysCase {
	var out []sysCase
	add := func(id, kind string, rsp []PluginRsp) {
		in := CaseIn{Kind: kind, Container: BaseContainer("ctr0", nil, 0.0), Stream: "builder-odd", Shape: "odd", Plugins: rsp}
		if kind == "update" {
			in.Resources = FullResources(nil, 1)
		}
		out = append(out, sysCase{id, in})
	}
	strs := func(s ...string) JArgs { return JArgs{Strs: s} }
	neg := int64(-1)
	big := int64(9223372036854775807)
	type odd struct {
		name  string
		first []JCall // earlier plugin (may be nil)
		prog  []JCall
	}
	odds := []odd{
		{"empty-annotation-key", nil, []JCall{mkCall("AddAnnotation", "", 1, 0), mkCall("RemoveAnnotation", "", 1, 0)}},
		{"empty-env-key", nil, []JCall{mkCall("AddEnv", "", 1, 0)}},
		{"empty-env-key-remove", nil, []JCall{mkCall("RemoveEnv", "", 1, 0), mkCall("AddEnv", "E1", 1, 0)}},
		{"empty-mount-key", nil, []JCall{mkCall("AddMount", "", 1, 0)}},
		{"empty-device-key", nil, []JCall{mkCall("RemoveDevice", "", 1, 0), mkCall("AddDevice", "", 1, 0)}},
		{"empty-unified-hugepage-rlimit-cdi", nil, []JCall{mkCall("AddLinuxUnified", "", 1, 0), mkCall("AddLinuxHugepageLimit", "", 1, 0),
			mkCall("AddRlimit", "", 1, 0), mkCall("AddCDIDevice", "", 1, 0)}},
		{"dash-annotation-key", []JCall{mkCall("AddAnnotation", "k0", 0, 0)}, []JCall{mkCall("AddAnnotation", "-k0", 1, 0), mkCall("AddAnnotation", "k0", 1, 1)}},
		{"dash-env-key", []JCall{mkCall("AddEnv", "E0", 0, 0)}, []JCall{mkCall("AddEnv", "-E0", 1, 0), mkCall("AddEnv", "E0", 1, 1)}},
		{"dash-mount-key", []JCall{mkCall("AddMount", "/m0", 0, 0)}, []JCall{mkCall("AddMount", "-/m0", 1, 0)}},
		{"dash-device-key", []JCall{mkCall("AddDevice", "/dev/d0", 0, 0)}, []JCall{mkCall("AddDevice", "-/dev/d0", 1, 0), mkCall("AddDevice", "/dev/d0", 1, 1)}},
		{"remove-dash-key", nil, []JCall{mkCall("RemoveEnv", "-E0", 1, 0), mkCall("RemoveAnnotation", "-k0", 1, 0)}},
		{"nil-hooks", nil, []JCall{mkCall("AddEnv", "E1", 1, 0), call("AddHooks", JArgs{})}},
		{"empty-hooks", nil, []JCall{call("AddHooks", JArgs{Hooks: &JHooks{}}), mkCall("AddHooks", "", 1, 3)}},
		{"setargs-nil", []JCall{mkCall("SetArgs", "", 0, 0)}, []JCall{call("SetArgs", JArgs{})}},
		{"setargs-empty", nil, []JCall{mkCall("SetArgs", "", 1, 0), call("SetArgs", strs())}},
		{"updateargs-nil", []JCall{mkCall("SetArgs", "", 0, 0)}, []JCall{call("UpdateArgs", JArgs{})}},
		{"updateargs-empty", []JCall{mkCall("SetArgs", "", 0, 0)}, []JCall{call("UpdateArgs", strs())}},
		{"setargs-with-marker", []JCall{mkCall("SetArgs", "", 0, 0)}, []JCall{call("SetArgs", strs("", "x"))}},
		{"updateargs-with-marker", []JCall{mkCall("SetArgs", "", 0, 0)}, []JCall{call("UpdateArgs", strs("", "x"))}},
		{"updateargs-then-setargs", []JCall{mkCall("SetArgs", "", 0, 0)}, []JCall{mkCall("UpdateArgs", "", 1, 0), mkCall("SetArgs", "", 1, 1)}},
		{"oom-nil", nil, []JCall{call("SetLinuxOomScoreAdj", JArgs{})}},
		{"oom-set-then-nil", []JCall{mkCall("SetLinuxOomScoreAdj", "", 0, 0)}, []JCall{mkCall("SetLinuxOomScoreAdj", "", 1, 0), call("SetLinuxOomScoreAdj", JArgs{})}},
		{"cgroups-empty", []JCall{mkCall("SetLinuxCgroupsPath", "", 0, 0)}, []JCall{mkCall("SetLinuxCgroupsPath", "", 1, 0), call("SetLinuxCgroupsPath", JArgs{})}},
		{"cpus-empty", []JCall{mkCall("SetLinuxCPUSetCPUs", "", 0, 0)}, []JCall{mkCall("SetLinuxCPUSetCPUs", "", 1, 0), call("SetLinuxCPUSetCPUs", JArgs{}),
			mkCall("SetLinuxCPUSetMems", "", 1, 0), call("SetLinuxCPUSetMems", JArgs{})}},
		{"cpus-empty-only", nil, []JCall{call("SetLinuxCPUSetCPUs", JArgs{})}},
		{"classes-empty", []JCall{mkCall("SetLinuxBlockIOClass", "", 0, 0)}, []JCall{call("SetLinuxBlockIOClass", JArgs{}), call("SetLinuxRDTClass", JArgs{})}},
		{"period-negative", nil, []JCall{call("SetLinuxCPUPeriod", JArgs{Int: &neg}), call("SetLinuxCPUQuota", JArgs{Int: &neg})}},
		{"numbers-extreme", nil, []JCall{call("SetLinuxMemoryLimit", JArgs{Int: &big}), call("SetLinuxCPUShares", JArgs{Uint: 18446744073709551615}),
			call("SetLinuxMemorySwappiness", JArgs{Uint: 0}), call("SetLinuxPidLimits", JArgs{Int: ip(0)}),
			call("AddLinuxHugepageLimit", JArgs{Key: "2M", Uint: 18446744073709551615}), call("AddRlimit", JArgs{Key: "RLIMIT_AS", Hard: 18446744073709551615, Soft: 0})}},
		{"pids-zero-collides", []JCall{mkCall("SetLinuxPidLimits", "", 0, 0)}, []JCall{call("SetLinuxPidLimits", JArgs{Int: ip(0)})}},
		{"hugepage-twice", nil, []JCall{mkCall("AddLinuxHugepageLimit", "2M", 1, 0), mkCall("AddLinuxHugepageLimit", "2M", 1, 1)}},
		{"env-twice", nil, []JCall{mkCall("RemoveEnv", "E1", 1, 0), mkCall("AddEnv", "E1", 1, 0), mkCall("AddEnv", "E1", 1, 1)}},
		{"linux-section-only", nil, []JCall{call("SetLinuxOomScoreAdj", JArgs{}), call("SetLinuxCgroupsPath", JArgs{})}},
	}
	for _, o := range odds {
		rsp := progPlugins()
		if o.first != nil {
			rsp[0].Progs = adjProg(o.first...)
		}
		rsp[1].Progs = adjProg(o.prog...)
		add("bodd-"+o.name, "create", rsp)
	}
	// update programs: no target, empty target, the container being created, ignore flag only
	for _, kind := range []string{"create", "update", "stop"} {
		rsp := progPlugins()
		rsp[0].Progs = updProgs([]JCall{mkCall("SetLinuxMemoryLimit", "", 0, 0)}, []JCall{mkCall("SetContainerId", "", 0, 0), mkCall("SetLinuxCPUShares", "", 0, 0)})
		rsp[2].Progs = updProgs([]JCall{mkCall("SetContainerId", "ctrA", 2, 0)}, []JCall{mkCall("SetContainerId", "ctrB", 2, 0), mkCall("SetIgnoreFailure", "", 2, 0)},
			[]JCall{})
		add("bodd-U.targets-"+kind, kind, rsp)
		rsp = progPlugins()
		rsp[1].Progs = updProgs([]JCall{mkCall("SetContainerId", "ctr0", 1, 0), mkCall("SetLinuxMemoryLimit", "", 1, 0),
			call("SetLinuxCPUPeriod", JArgs{Int: &neg}), call("SetLinuxCPUSetCPUs", JArgs{}), call("SetLinuxPidLimits", JArgs{Int: ip(0)})})
		add("bodd-U.own-"+kind, kind, rsp)
	}
	return out
}

// BuilderJobs is the builder stream of one run.
func BuilderJobs(r *rand.Rand, systematic bool, nRandom int) []sysCase {
	var out []sysCase
	if systematic {
		out = append(out, BuilderSystematic()...)
		out = append(out, BuilderOdd()...)
	}
	g := &Gen{R: r}
	for i := 0; i < nRandom; i++ {
		id, in := g.BuilderRandom(i)
		out = append(out, sysCase{id, in})
	}
	return out
}
