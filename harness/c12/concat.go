package c12

import (
	"encoding/hex"
	"fmt"
	"math/rand"

	"google.golang.org/protobuf/proto"
)

// The `concat` stream: two values a, b of one message type. Both Go decoders are run on
// MarshalVT(a) ++ MarshalVT(b) and on the concatenated protobuf-go encodings; protobuf
// semantics says the result is Merge(a, b) — which is what the Lean theorem C12_concat
// proves of the reference decoder. The reference for "Merge" on the Go side is proto.Merge.

type concatObs struct {
	CatPB  string        `json:"cat_pb"` // hex of proto.Marshal(a) ++ proto.Marshal(b) (deterministic)
	Err    string        `json:"err"`
	PB     decRes        `json:"pb"`     // proto.Unmarshal(cat_pb)
	VT     decRes        `json:"vt"`     // UnmarshalVT(cat_pb)
	VTVT   decRes        `json:"vtvt"`   // UnmarshalVT(MarshalVT(a) ++ MarshalVT(b))
	Merged []interface{} `json:"merged"` // dump of proto.Merge(clone(a), b)
}

func (s *schema) execConcat(in *caseIn) (*concatObs, error) {
	mi, ok := s.byName[in.Msg]
	if !ok {
		return nil, fmt.Errorf("unknown message %q", in.Msg)
	}
	md := s.msgs[mi]
	a, err := build(md, in.Val, in.AllocEmpty)
	if err != nil {
		return nil, err
	}
	b, err := build(md, in.Val2, in.AllocEmpty)
	if err != nil {
		return nil, err
	}
	o := &concatObs{}
	err = safely(func() error {
		pa, e := proto.MarshalOptions{Deterministic: true}.Marshal(a)
		if e != nil {
			return e
		}
		pb, e := proto.MarshalOptions{Deterministic: true}.Marshal(b)
		if e != nil {
			return e
		}
		cat := append(append([]byte{}, pa...), pb...)
		o.CatPB = hex.EncodeToString(cat)
		dst := proto.Clone(a)
		proto.Merge(dst, b)
		var unk int
		o.Merged = dump(dst.ProtoReflect(), &unk)
		o.PB = decodeWith(md, dst, nil, cat, false)
		o.VT = decodeWith(md, dst, nil, cat, true)
		va, e := a.(vtMsg).MarshalVT()
		if e != nil {
			return e
		}
		vb, e := b.(vtMsg).MarshalVT()
		if e != nil {
			return e
		}
		o.VTVT = decodeWith(md, dst, nil, append(append([]byte{}, va...), vb...), true)
		return nil
	})
	if err != nil {
		o.Err = firstLine(err.Error())
	}
	return o, nil
}

func (s *schema) concatCases(r *rand.Rand, n int) []*caseIn {
	var pick []int
	for mi, md := range s.msgs {
		for k := 0; k < md.Fields().Len(); k++ {
			pick = append(pick, mi)
		}
	}
	var out []*caseIn
	for i := 0; i < n; i++ {
		mi := pick[r.Intn(len(pick))]
		md := s.msgs[mi]
		pa := []float64{0.3, 0.6, 1.0}[r.Intn(3)]
		pb := []float64{0.3, 0.6, 1.0}[r.Intn(3)]
		out = append(out, &caseIn{Msg: s.name(mi), Val: s.randMsg(r, md, 1+r.Intn(3), pa), Val2: s.randMsg(r, md, 1+r.Intn(3), pb),
			Stream: "concat", Note: fmt.Sprintf("pa=%.1f,pb=%.1f", pa, pb)})
	}
	return out
}
