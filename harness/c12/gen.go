package c12

import (
	"fmt"
	"os"
	"path/filepath"
	"strings"

	"github.com/containerd/nri/pkg/api"
	"google.golang.org/protobuf/reflect/protoreflect"
)

// schema is the descriptor compiled into pkg/api/api.pb.go, flattened: every message
// definition of the file (nested ones included, synthetic map-entry messages excluded), in
// declaration order. The position in this list is the message index used by the Lean model.
type schema struct {
	msgs   []protoreflect.MessageDescriptor
	index  map[protoreflect.FullName]int
	byName map[string]int // name relative to the package
	big    int            // generator knob: upper bound of list/map lengths (0 = default)
}

func loadSchema() *schema {
	s := &schema{index: map[protoreflect.FullName]int{}, byName: map[string]int{}}
	var walk func(ms protoreflect.MessageDescriptors)
	walk = func(ms protoreflect.MessageDescriptors) {
		for i := 0; i < ms.Len(); i++ {
			md := ms.Get(i)
			if md.IsMapEntry() {
				continue
			}
			s.index[md.FullName()] = len(s.msgs)
			s.byName[strings.TrimPrefix(string(md.FullName()), string(md.ParentFile().Package())+".")] = len(s.msgs)
			s.msgs = append(s.msgs, md)
			walk(md.Messages())
		}
	}
	walk(api.File_pkg_api_api_proto.Messages())
	return s
}

// fkind classifies a field the way the Lean model does; anything else is "unsupported".
type fkind int

const (
	kScalar fkind = iota
	kString
	kMsg
	kRepString
	kRepMsg
	kMapSS
	kUnsupported
)

func scalarName(fd protoreflect.FieldDescriptor) string {
	switch fd.Kind() {
	case protoreflect.Int32Kind:
		return "int32"
	case protoreflect.Int64Kind:
		return "int64"
	case protoreflect.Uint32Kind:
		return "uint32"
	case protoreflect.Uint64Kind:
		return "uint64"
	case protoreflect.BoolKind:
		return "bool"
	case protoreflect.EnumKind:
		return "enum"
	}
	return ""
}

func classify(fd protoreflect.FieldDescriptor) (fkind, string) {
	// features the model does not cover make the field unsupported, with the reason
	if fd.ContainingOneof() != nil {
		if fd.HasOptionalKeyword() {
			return kUnsupported, "proto3 optional"
		}
		return kUnsupported, "oneof"
	}
	if fd.IsExtension() {
		return kUnsupported, "extension"
	}
	if fd.IsMap() {
		k, v := fd.MapKey(), fd.MapValue()
		if k.Kind() == protoreflect.StringKind && v.Kind() == protoreflect.StringKind {
			return kMapSS, ""
		}
		return kUnsupported, fmt.Sprintf("map<%s,%s>", k.Kind(), v.Kind())
	}
	if fd.IsList() {
		switch fd.Kind() {
		case protoreflect.StringKind:
			return kRepString, ""
		case protoreflect.MessageKind:
			return kRepMsg, ""
		}
		return kUnsupported, "repeated " + fd.Kind().String()
	}
	switch fd.Kind() {
	case protoreflect.StringKind:
		return kString, ""
	case protoreflect.MessageKind:
		return kMsg, ""
	}
	if scalarName(fd) != "" {
		if fd.HasPresence() {
			return kUnsupported, "explicit-presence scalar"
		}
		return kScalar, ""
	}
	return kUnsupported, fd.Kind().String()
}

// genLean renders the schema as a Lean definition.
func (s *schema) genLean() (string, []string) {
	var b strings.Builder
	var unsupported []string
	b.WriteString("/-\nGENERATED on every run by `verifh C12 -tier gen` from the descriptor compiled into\n")
	b.WriteString("pkg/api/api.pb.go (`api.File_pkg_api_api_proto`, read through protoreflect). Do not edit:\n")
	b.WriteString("bin/setup and bin/check overwrite this file before building the Lean project.\n")
	fmt.Fprintf(&b, "file: %s   syntax: %s   messages: %d\n-/\n", api.File_pkg_api_api_proto.Path(),
		api.File_pkg_api_api_proto.Syntax(), len(s.msgs))
	b.WriteString("import NriModel.Wire\n\nnamespace Nri.Wire.Extracted\nopen Nri.Wire\n\n")
	b.WriteString("def apiSchema : Schema := [\n")
	for i, md := range s.msgs {
		fmt.Fprintf(&b, "  -- %d\n  { name := %q, fields := [", i, strings.TrimPrefix(string(md.FullName()), string(md.ParentFile().Package())+"."))
		fds := md.Fields()
		for j := 0; j < fds.Len(); j++ {
			fd := fds.Get(j)
			k, why := classify(fd)
			var ty string
			switch k {
			case kScalar:
				ty = ".scalar ." + scalarName(fd)
			case kString:
				ty = ".string"
			case kMsg:
				ty = fmt.Sprintf(".msg %d", s.index[fd.Message().FullName()])
			case kRepString:
				ty = ".repString"
			case kRepMsg:
				ty = fmt.Sprintf(".repMsg %d", s.index[fd.Message().FullName()])
			case kMapSS:
				ty = ".mapSS"
			default:
				ty = ".unsupported"
				unsupported = append(unsupported, fmt.Sprintf("%s.%s: %s", md.Name(), fd.Name(), why))
			}
			if j > 0 {
				b.WriteString(",")
			}
			fmt.Fprintf(&b, "\n      { name := %q, num := %d, ty := %s }", string(fd.Name()), fd.Number(), ty)
		}
		b.WriteString(" ] }")
		if i+1 < len(s.msgs) {
			b.WriteString(",")
		}
		b.WriteString("\n")
	}
	b.WriteString("]\n\n")
	if api.File_pkg_api_api_proto.Syntax() != protoreflect.Proto3 {
		unsupported = append(unsupported, "file syntax is not proto3")
	}
	fmt.Fprintf(&b, "/-- features of the descriptor outside the model (must be empty) -/\ndef unsupportedFeatures : List String := [")
	for i, u := range unsupported {
		if i > 0 {
			b.WriteString(", ")
		}
		fmt.Fprintf(&b, "%q", u)
	}
	b.WriteString("]\n\nend Nri.Wire.Extracted\n")
	return b.String(), unsupported
}

func runGen(outDir string) error {
	s := loadSchema()
	txt, uns := s.genLean()
	if err := os.MkdirAll(outDir, 0o755); err != nil {
		return err
	}
	if err := os.WriteFile(filepath.Join(outDir, "ApiSchema.lean"), []byte(txt), 0o644); err != nil {
		return err
	}
	for _, u := range uns {
		fmt.Fprintln(os.Stderr, "C12 gen: unsupported by the wire model:", u)
	}
	return nil
}
