package c12

import (
	"encoding/hex"
	"fmt"
	"math/rand"

	"google.golang.org/protobuf/encoding/protowire"
	"google.golang.org/protobuf/proto"
	"google.golang.org/protobuf/reflect/protoreflect"
)

// The `raw` stream: byte strings no encoder produces (wrong wire type for a declared field,
// truncation, over-long varints, unknown fields, groups, repeated singular fields, odd map
// entries). Outside the property's domain — recorded, and the one thing enforced is that
// whenever the Lean decoder accepts, both Go decoders accept and return the same value.

type rawObs struct {
	PB decRes `json:"pb"` // proto.Unmarshal
	VT decRes `json:"vt"` // UnmarshalVT
}

func (s *schema) execRaw(in *caseIn) (*rawObs, error) {
	mi, ok := s.byName[in.Msg]
	if !ok {
		return nil, fmt.Errorf("unknown message %q", in.Msg)
	}
	data, err := hex.DecodeString(in.Raw)
	if err != nil {
		return nil, err
	}
	md := s.msgs[mi]
	empty, err := newMsg(md)
	if err != nil {
		return nil, err
	}
	o := &rawObs{}
	o.PB = decodeWith(md, empty.Interface(), nil, data, false)
	o.VT = decodeWith(md, empty.Interface(), nil, data, true)
	return o, nil
}

func (s *schema) rawCases(r *rand.Rand) []*caseIn {
	var out []*caseIn
	add := func(mi int, class, note string, b []byte) {
		out = append(out, &caseIn{Msg: s.name(mi), Raw: hex.EncodeToString(b), Stream: "raw", Note: class + ":" + note})
	}
	for mi, md := range s.msgs {
		fds := md.Fields()
		// a valid, fully populated encoding to mutate
		val := s.randMsg(r, md, 2, 1.0)
		var valid []byte
		if m, err := build(md, val, false); err == nil {
			valid, _ = proto.MarshalOptions{Deterministic: true}.Marshal(m)
		}
		for j := 0; j < fds.Len(); j++ {
			fd := fds.Get(j)
			num := fd.Number()
			k, _ := classify(fd)
			switch k {
			case kScalar:
				add(mi, "wiretype", string(fd.Name())+"/len-for-varint", protowire.AppendBytes(protowire.AppendTag(nil, num, protowire.BytesType), []byte("a")))
				add(mi, "wiretype", string(fd.Name())+"/fixed32-for-varint", protowire.AppendFixed32(protowire.AppendTag(nil, num, protowire.Fixed32Type), 7))
				add(mi, "varint10", string(fd.Name())+"/last=02", append(protowire.AppendTag(nil, num, protowire.VarintType), 0x81, 0x80, 0x80, 0x80, 0x80, 0x80, 0x80, 0x80, 0x80, 0x02))
				add(mi, "varint10", string(fd.Name())+"/last=7f", append(protowire.AppendTag(nil, num, protowire.VarintType), 0xff, 0xff, 0xff, 0xff, 0xff, 0xff, 0xff, 0xff, 0xff, 0x7f))
				add(mi, "varint11", string(fd.Name()), append(protowire.AppendTag(nil, num, protowire.VarintType), 0x81, 0x80, 0x80, 0x80, 0x80, 0x80, 0x80, 0x80, 0x80, 0x80, 0x01))
				b := protowire.AppendVarint(protowire.AppendTag(nil, num, protowire.VarintType), 5)
				b = protowire.AppendVarint(protowire.AppendTag(b, num, protowire.VarintType), 1)
				add(mi, "dup-singular", string(fd.Name())+"/5-then-1", b)
				add(mi, "wide-varint", string(fd.Name())+"/2^40+3", protowire.AppendVarint(protowire.AppendTag(nil, num, protowire.VarintType), 1<<40+3))
			case kString, kMsg, kRepString, kRepMsg, kMapSS:
				add(mi, "wiretype", string(fd.Name())+"/varint-for-len", protowire.AppendVarint(protowire.AppendTag(nil, num, protowire.VarintType), 1))
				add(mi, "overlong-len", string(fd.Name()), append(protowire.AppendVarint(protowire.AppendTag(nil, num, protowire.BytesType), 5), 'a'))
			}
			if k == kMapSS {
				entry := protowire.AppendString(protowire.AppendTag(nil, 2, protowire.BytesType), "v")
				entry = protowire.AppendString(protowire.AppendTag(entry, 1, protowire.BytesType), "k1")
				entry = protowire.AppendString(protowire.AppendTag(entry, 1, protowire.BytesType), "k2")
				add(mi, "map-entry", string(fd.Name())+"/value-first,key-twice", protowire.AppendBytes(protowire.AppendTag(nil, num, protowire.BytesType), entry))
				add(mi, "map-entry", string(fd.Name())+"/empty-entry", protowire.AppendBytes(protowire.AppendTag(nil, num, protowire.BytesType), nil))
				e2 := protowire.AppendString(protowire.AppendTag(nil, 1, protowire.BytesType), "k")
				e2 = protowire.AppendVarint(protowire.AppendTag(e2, 3, protowire.VarintType), 9)
				add(mi, "map-entry", string(fd.Name())+"/unknown-field-3", protowire.AppendBytes(protowire.AppendTag(nil, num, protowire.BytesType), e2))
				dup := protowire.AppendBytes(protowire.AppendTag(nil, num, protowire.BytesType), protowire.AppendString(protowire.AppendTag(protowire.AppendString(protowire.AppendTag(nil, 1, protowire.BytesType), "k"), 2, protowire.BytesType), "a"))
				dup = protowire.AppendBytes(protowire.AppendTag(dup, num, protowire.BytesType), protowire.AppendString(protowire.AppendTag(protowire.AppendString(protowire.AppendTag(nil, 1, protowire.BytesType), "k"), 2, protowire.BytesType), "b"))
				add(mi, "map-entry", string(fd.Name())+"/same-key-twice", dup)
			}
		}
		unk := protoreflect.FieldNumber(1000)
		add(mi, "unknown", "varint", protowire.AppendVarint(protowire.AppendTag(append([]byte{}, valid...), unk, protowire.VarintType), 7))
		add(mi, "unknown", "len", protowire.AppendString(protowire.AppendTag(append([]byte{}, valid...), unk, protowire.BytesType), "zz"))
		add(mi, "unknown", "fixed64", protowire.AppendFixed64(protowire.AppendTag(append([]byte{}, valid...), unk, protowire.Fixed64Type), 7))
		add(mi, "unknown", "fixed32", protowire.AppendFixed32(protowire.AppendTag(append([]byte{}, valid...), unk, protowire.Fixed32Type), 7))
		g := protowire.AppendTag(nil, unk, protowire.StartGroupType)
		g = protowire.AppendVarint(protowire.AppendTag(g, 1, protowire.VarintType), 1)
		g = protowire.AppendTag(g, unk, protowire.EndGroupType)
		add(mi, "group", "unknown-group", g)
		add(mi, "group", "stray-end-group", protowire.AppendTag(nil, unk, protowire.EndGroupType))
		add(mi, "field0", "tag-0", []byte{0x00, 0x00})
		// field numbers above the legal maximum 2^29-1 (protobuf-go rejects; vtproto computes
		// int32(wire>>3): 2^31 becomes negative, 2^32+n aliases onto the declared field n)
		rawTag := func(num uint64, wt uint64) []byte { return protowire.AppendVarint(nil, num<<3|wt) }
		add(mi, "bigfield", "2^29/varint", protowire.AppendVarint(rawTag(1<<29, 0), 7))
		add(mi, "bigfield", "2^29/len", protowire.AppendString(rawTag(1<<29, 2), "zz"))
		add(mi, "bigfield", "2^31/varint", protowire.AppendVarint(rawTag(1<<31, 0), 5))
		add(mi, "bigfield", "2^29-1/varint(legal)", protowire.AppendVarint(rawTag(1<<29-1, 0), 7))
		for j := 0; j < fds.Len(); j++ {
			fd := fds.Get(j)
			num := uint64(fd.Number())
			switch k, _ := classify(fd); k {
			case kScalar:
				add(mi, "bigfield", string(fd.Name())+"/2^32+declared/varint=5", protowire.AppendVarint(rawTag(1<<32+num, 0), 5))
			case kString:
				add(mi, "bigfield", string(fd.Name())+"/2^32+declared/len", protowire.AppendString(rawTag(1<<32+num, 2), "aliased"))
			case kMapSS:
				for _, big := range []uint64{1 << 29, 1 << 31, 1<<32 + 1} {
					e := protowire.AppendString(protowire.AppendTag(nil, 1, protowire.BytesType), "k")
					e = append(e, protowire.AppendString(rawTag(big, 2), "K2")...)
					e = protowire.AppendString(protowire.AppendTag(e, 2, protowire.BytesType), "v")
					add(mi, "bigfield", fmt.Sprintf("%s/in-map-entry/%d", fd.Name(), big), protowire.AppendBytes(protowire.AppendTag(nil, fd.Number(), protowire.BytesType), e))
				}
			}
		}
		if len(valid) > 1 {
			for t := 0; t < 3; t++ {
				cut := 1 + r.Intn(len(valid)-1)
				add(mi, "truncated", fmt.Sprintf("%d/%d", cut, len(valid)), valid[:cut])
			}
		}
	}
	return out
}
