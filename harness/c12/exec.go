package c12

import (
	"bufio"
	"bytes"
	"encoding/hex"
	"encoding/json"
	"fmt"
	"os"
	"os/exec"
	"path/filepath"
	"reflect"
	"strings"
	"time"

	"google.golang.org/protobuf/proto"
	"google.golang.org/protobuf/reflect/protoreflect"
)

// vtMsg is what api_vtproto.pb.go generates for every message type.
type vtMsg interface {
	proto.Message
	MarshalVT() ([]byte, error)
	UnmarshalVT([]byte) error
	SizeVT() int
}

type caseIn struct {
	Msg        string        `json:"msg"`         // message name relative to the package
	Val        []interface{} `json:"val"`         // abstract value (see value.go)
	AllocEmpty bool          `json:"alloc_empty"` // empty lists/maps allocated non-nil
	Stream     string        `json:"stream"`      // field | nested | lenb | full | random | excluded | helper
	Note       string        `json:"note"`        // which field / which boundary value
	Raw        string        `json:"raw"`         // stream "raw" only: hex of the input bytes (val is null)
	Fn         string        `json:"fn"`          // stream "glue" only: wrapper of api_host.pb.go
	Side       string        `json:"side"`        // stream "glue" only: req | resp | log
	Val2       []interface{} `json:"val2"`        // stream "concat" only: the second value
}

func deepEq(a, b interface{}) bool { return reflect.DeepEqual(a, b) }

// decRes is the result of one decoder on one byte string.
type decRes struct {
	Ok      bool          `json:"ok"`
	Err     string        `json:"err"`     // "" | error kind
	Equal   bool          `json:"equal"`   // proto.Equal(decoded, original)
	Unknown int           `json:"unknown"` // bytes of unknown fields kept by the decoder
	Same    bool          `json:"same"`    // the abstract value of the decoded message is the input value
	Dump    []interface{} `json:"dump"`    // that abstract value, when it differs (null when Same)
}

type leanRes struct {
	Name string `json:"name"`
	Hex  string `json:"hex"`
	PB   decRes `json:"pb"` // proto.Unmarshal of the Lean bytes
	VT   decRes `json:"vt"` // UnmarshalVT of the Lean bytes
}

type obsT struct {
	HasVT  bool   `json:"has_vt"`
	PB     string `json:"pb"` // hex of proto.MarshalOptions{Deterministic:true}.Marshal
	PBErr  string `json:"pb_err"`
	PBSize int    `json:"pb_size"` // proto.Size
	VT     string `json:"vt"`      // hex of MarshalVT
	VTErr  string `json:"vt_err"`
	SizeVT int    `json:"size_vt"`
	// the four decodings of the two Go encodings
	// plain proto.Marshal (default options: what the ttRPC codec calls; Go maps are walked in
	// their random order by a different library routine than the Deterministic one)
	PBD    string `json:"pbd"`
	PBDErr string `json:"pbd_err"`
	PBD2VT decRes `json:"pbd2vt"` // UnmarshalVT(proto.Marshal(m))
	PBD2PB decRes `json:"pbd2pb"`
	PB2VT  decRes `json:"pb2vt"` // UnmarshalVT(deterministic proto bytes)
	VT2PB  decRes `json:"vt2pb"` // proto.Unmarshal(MarshalVT bytes)
	PB2PB  decRes `json:"pb2pb"`
	VT2VT  decRes `json:"vt2vt"`
	// the bytes of the Lean encoder (and accepted variants) through both Go decoders
	Lean    []leanRes `json:"lean"`
	LeanErr string    `json:"lean_err"`
	// the value could not even be stored into / the message type could not be instantiated
	// through protobuf reflection (first panic line)
	BuildErr string `json:"build_err"`
}

func errKind(err error) string {
	if err == nil {
		return ""
	}
	s := err.Error()
	switch {
	case strings.Contains(s, "invalid UTF-8"):
		return "invalid-utf8"
	case strings.Contains(s, "unexpected EOF"):
		return "eof"
	case strings.Contains(s, "wrong wireType"), strings.Contains(s, "wiretype"):
		return "wiretype"
	case strings.Contains(s, "overflow"):
		return "overflow"
	case strings.Contains(s, "illegal tag"):
		return "illegal-tag"
	case strings.Contains(s, "cannot parse"):
		return "parse"
	case strings.HasPrefix(s, "panic"):
		return "panic"
	}
	return "other"
}

func safely(f func() error) (err error) {
	defer func() {
		if r := recover(); r != nil {
			err = fmt.Errorf("panic: %v", r)
		}
	}()
	return f()
}

func decodeWith(md protoreflect.MessageDescriptor, orig proto.Message, want interface{}, data []byte, vt bool) decRes {
	var r decRes
	m, err := newMsg(md)
	if err != nil {
		r.Err = "other"
		return r
	}
	pm := m.Interface()
	err = safely(func() error {
		if vt {
			v, ok := pm.(vtMsg)
			if !ok {
				return fmt.Errorf("no UnmarshalVT")
			}
			return v.UnmarshalVT(data)
		}
		return proto.Unmarshal(data, pm)
	})
	if err != nil {
		r.Err = errKind(err)
		return r
	}
	r.Ok = true
	_ = safely(func() error {
		r.Equal = proto.Equal(pm, orig)
		r.Dump = dump(pm.ProtoReflect(), &r.Unknown)
		return nil
	})
	if r.Dump != nil && reflect.DeepEqual(normJSON(r.Dump), want) {
		r.Same, r.Dump = true, nil
	}
	return r
}

// execCase runs the real codecs on one abstract value.
func (s *schema) execCase(in *caseIn, lean []variant, leanErr string) (*obsT, error) {
	mi, ok := s.byName[in.Msg]
	if !ok {
		return nil, fmt.Errorf("unknown message %q", in.Msg)
	}
	md := s.msgs[mi]
	var orig proto.Message
	var berr error
	perr := safely(func() error {
		orig, berr = build(md, in.Val, in.AllocEmpty)
		return nil
	})
	if berr != nil {
		return nil, berr // malformed input line
	}
	o := &obsT{LeanErr: leanErr}
	if perr != nil {
		line := perr.Error()
		if i := strings.IndexByte(line, '\n'); i >= 0 {
			line = line[:i]
		}
		if len(line) > 200 {
			line = line[:200]
		}
		o.BuildErr = line
		o.PBErr, o.VTErr = "no-message", "no-message"
		o.PBDErr = "no-message"
		for _, d := range []*decRes{&o.PB2VT, &o.VT2PB, &o.PB2PB, &o.VT2VT, &o.PBD2VT, &o.PBD2PB} {
			d.Err = "no-input"
		}
		return o, nil
	}
	want := normJSON(in.Val)
	var pb, vtb []byte
	err := safely(func() error {
		var e error
		pb, e = proto.MarshalOptions{Deterministic: true}.Marshal(orig)
		return e
	})
	o.PBErr = errKind(err)
	if err == nil {
		o.PB = hex.EncodeToString(pb)
	}
	_ = safely(func() error { o.PBSize = proto.Size(orig); return nil })
	var pbd []byte
	err = safely(func() error {
		var e error
		pbd, e = proto.Marshal(orig)
		return e
	})
	o.PBDErr = errKind(err)
	if err == nil {
		o.PBD = hex.EncodeToString(pbd)
		o.PBD2VT = decodeWith(md, orig, want, pbd, true)
		o.PBD2PB = decodeWith(md, orig, want, pbd, false)
	} else {
		o.PBD2VT.Err, o.PBD2PB.Err = "no-input", "no-input"
	}
	v, hasVT := orig.(vtMsg)
	o.HasVT = hasVT
	if hasVT {
		err = safely(func() error {
			var e error
			vtb, e = v.MarshalVT()
			return e
		})
		o.VTErr = errKind(err)
		if err == nil {
			o.VT = hex.EncodeToString(vtb)
		}
		if e := safely(func() error { o.SizeVT = v.SizeVT(); return nil }); e != nil {
			o.SizeVT = -1
		}
	} else {
		o.VTErr = "other"
	}
	if o.PBErr == "" {
		o.PB2VT = decodeWith(md, orig, want, pb, true)
		o.PB2PB = decodeWith(md, orig, want, pb, false)
	} else {
		o.PB2VT.Err, o.PB2PB.Err = "no-input", "no-input"
	}
	if o.VTErr == "" {
		o.VT2PB = decodeWith(md, orig, want, vtb, false)
		o.VT2VT = decodeWith(md, orig, want, vtb, true)
	} else {
		o.VT2PB.Err, o.VT2VT.Err = "no-input", "no-input"
	}
	for _, lv := range lean {
		data, err := hex.DecodeString(lv.Hex)
		if err != nil {
			return nil, fmt.Errorf("lean variant %s: %v", lv.Name, err)
		}
		lr := leanRes{Name: lv.Name, Hex: lv.Hex}
		lr.PB = decodeWith(md, orig, want, data, false)
		lr.VT = decodeWith(md, orig, want, data, true)
		o.Lean = append(o.Lean, lr)
	}
	return o, nil
}

func normJSON(v interface{}) interface{} {
	b, _ := json.Marshal(v)
	var out interface{}
	_ = json.Unmarshal(b, &out)
	return out
}

// ---- the Lean encoder, reached through the compiled driver ----

type variant struct {
	Name string `json:"name"`
	Hex  string `json:"hex"`
}

func findDriver() (string, error) {
	var cands []string
	if p := os.Getenv("VERIF_NRIDRV"); p != "" {
		cands = append(cands, p)
	}
	if exe, err := os.Executable(); err == nil {
		cands = append(cands, filepath.Join(filepath.Dir(exe), "nridrv")) // bin/check's private copies sit side by side
	}
	if d := os.Getenv("VERIF_DIR"); d != "" {
		cands = append(cands, filepath.Join(d, "lean", ".lake", "build", "bin", "nridrv"))
	}
	if wd, err := os.Getwd(); err == nil {
		cands = append(cands, filepath.Join(wd, "lean", ".lake", "build", "bin", "nridrv"))
	}
	for _, c := range cands {
		if st, err := os.Stat(c); err == nil && !st.IsDir() {
			return c, nil
		}
	}
	return "", fmt.Errorf("Lean driver binary not found (tried %v)", cands)
}

// leanEncode asks `nridrv C12` for the bytes of the Lean encoder (and of the variants the
// decoders must accept) for every case. One process, one request line per case.
func leanEncode(scratch, reqName string, ins []*caseIn) ([][]variant, []string, error) {
	drv, err := findDriver()
	if err != nil {
		return nil, nil, err
	}
	reqPath := filepath.Join(scratch, reqName)
	defer os.Remove(reqPath)
	f, err := os.Create(reqPath)
	if err != nil {
		return nil, nil, err
	}
	bw := bufio.NewWriterSize(f, 1<<20)
	for i, in := range ins {
		b, err := json.Marshal(map[string]interface{}{"id": fmt.Sprint(i), "op": "encode", "in": in})
		if err != nil {
			return nil, nil, err
		}
		bw.Write(b)
		bw.WriteByte('\n')
	}
	if err := bw.Flush(); err != nil {
		return nil, nil, err
	}
	f.Close()
	rf, err := os.Open(reqPath)
	if err != nil {
		return nil, nil, err
	}
	defer rf.Close()
	cmd := exec.Command(drv, "C12")
	cmd.Stdin = rf
	var out, errb bytes.Buffer
	cmd.Stdout, cmd.Stderr = &out, &errb
	if err := cmd.Start(); err != nil {
		return nil, nil, err
	}
	done := make(chan error, 1)
	go func() { done <- cmd.Wait() }()
	select {
	case err := <-done:
		if err != nil {
			return nil, nil, fmt.Errorf("nridrv C12 (encode): %v: %s", err, errb.String())
		}
	case <-time.After(20 * time.Minute):
		cmd.Process.Kill()
		return nil, nil, fmt.Errorf("nridrv C12 (encode): timed out")
	}
	res := make([][]variant, len(ins))
	errs := make([]string, len(ins))
	sc := bufio.NewScanner(&out)
	sc.Buffer(make([]byte, 1<<20), 1<<30)
	i := 0
	for sc.Scan() {
		if i >= len(ins) {
			return nil, nil, fmt.Errorf("nridrv C12 (encode): too many answers")
		}
		var v struct {
			Agree bool   `json:"agree"`
			Why   string `json:"why"`
			Model struct {
				Variants []variant `json:"variants"`
			} `json:"model"`
		}
		if err := json.Unmarshal(sc.Bytes(), &v); err != nil {
			return nil, nil, fmt.Errorf("nridrv C12 (encode): %v", err)
		}
		if !v.Agree {
			errs[i] = v.Why
		}
		res[i] = v.Model.Variants
		i++
	}
	if i != len(ins) {
		return nil, nil, fmt.Errorf("nridrv C12 (encode): %d answers for %d requests", i, len(ins))
	}
	return res, errs, nil
}
