package c12

import (
	"encoding/hex"
	"fmt"
	"math/big"
	"sort"

	"google.golang.org/protobuf/proto"
	"google.golang.org/protobuf/reflect/protoreflect"
	"google.golang.org/protobuf/reflect/protoregistry"
)

// Abstract values, exactly the JSON the Lean driver reads (type-directed, positional):
//
//	scalar field      -> decimal string ("-1", "0", "18446744073709551615"; bool "0"/"1")
//	string field      -> hex string of its bytes
//	message field     -> nil (absent) | []interface{} (present: its fields in schema order)
//	repeated string   -> []interface{} of hex strings
//	repeated message  -> []interface{} of []interface{} (nil element = nil *T: malformed)
//	map<string,string>-> []interface{} of [khex, vhex], sorted by key bytes, no duplicate key
//
// A message value is the []interface{} of its field values in the order of the descriptor.

func hexs(s string) string { return hex.EncodeToString([]byte(s)) }

func unhex(v interface{}) (string, error) {
	s, ok := v.(string)
	if !ok {
		return "", fmt.Errorf("expected hex string, got %T", v)
	}
	b, err := hex.DecodeString(s)
	return string(b), err
}

func defaultVal(fd protoreflect.FieldDescriptor) interface{} {
	k, _ := classify(fd)
	switch k {
	case kScalar:
		return "0"
	case kString:
		return ""
	case kMsg:
		return nil
	default:
		return []interface{}{}
	}
}

func defaults(md protoreflect.MessageDescriptor) []interface{} {
	fds := md.Fields()
	out := make([]interface{}, fds.Len())
	for i := range out {
		out[i] = defaultVal(fds.Get(i))
	}
	return out
}

func newMsg(md protoreflect.MessageDescriptor) (protoreflect.Message, error) {
	mt, err := protoregistry.GlobalTypes.FindMessageByName(md.FullName())
	if err != nil {
		return nil, err
	}
	return mt.New(), nil
}

func scalarValue(fd protoreflect.FieldDescriptor, v interface{}) (protoreflect.Value, error) {
	s, ok := v.(string)
	if !ok {
		return protoreflect.Value{}, fmt.Errorf("field %s: expected decimal string, got %T", fd.Name(), v)
	}
	n, ok := new(big.Int).SetString(s, 10)
	if !ok {
		return protoreflect.Value{}, fmt.Errorf("field %s: bad integer %q", fd.Name(), s)
	}
	switch fd.Kind() {
	case protoreflect.Int32Kind:
		if !n.IsInt64() || n.Int64() != int64(int32(n.Int64())) {
			return protoreflect.Value{}, fmt.Errorf("field %s: %s outside int32", fd.Name(), s)
		}
		return protoreflect.ValueOfInt32(int32(n.Int64())), nil
	case protoreflect.EnumKind:
		if !n.IsInt64() || n.Int64() != int64(int32(n.Int64())) {
			return protoreflect.Value{}, fmt.Errorf("field %s: %s outside int32", fd.Name(), s)
		}
		return protoreflect.ValueOfEnum(protoreflect.EnumNumber(n.Int64())), nil
	case protoreflect.Int64Kind:
		if !n.IsInt64() {
			return protoreflect.Value{}, fmt.Errorf("field %s: %s outside int64", fd.Name(), s)
		}
		return protoreflect.ValueOfInt64(n.Int64()), nil
	case protoreflect.Uint32Kind:
		if !n.IsUint64() || n.Uint64() > 0xffffffff {
			return protoreflect.Value{}, fmt.Errorf("field %s: %s outside uint32", fd.Name(), s)
		}
		return protoreflect.ValueOfUint32(uint32(n.Uint64())), nil
	case protoreflect.Uint64Kind:
		if !n.IsUint64() {
			return protoreflect.Value{}, fmt.Errorf("field %s: %s outside uint64", fd.Name(), s)
		}
		return protoreflect.ValueOfUint64(n.Uint64()), nil
	case protoreflect.BoolKind:
		if s != "0" && s != "1" {
			return protoreflect.Value{}, fmt.Errorf("field %s: bool must be 0/1", fd.Name())
		}
		return protoreflect.ValueOfBool(s == "1"), nil
	}
	return protoreflect.Value{}, fmt.Errorf("field %s: kind %s not a modelled scalar", fd.Name(), fd.Kind())
}

// fill stores the abstract value into a (fresh) message through protoreflect.
// allocEmpty: empty lists/maps are allocated (non-nil, length 0) instead of left nil.
func fill(m protoreflect.Message, vals []interface{}, allocEmpty bool) error {
	fds := m.Descriptor().Fields()
	if len(vals) != fds.Len() {
		return fmt.Errorf("%s: %d values for %d fields", m.Descriptor().Name(), len(vals), fds.Len())
	}
	for j := 0; j < fds.Len(); j++ {
		fd, v := fds.Get(j), vals[j]
		k, why := classify(fd)
		switch k {
		case kScalar:
			pv, err := scalarValue(fd, v)
			if err != nil {
				return err
			}
			m.Set(fd, pv)
		case kString:
			s, err := unhex(v)
			if err != nil {
				return err
			}
			m.Set(fd, protoreflect.ValueOfString(s))
		case kMsg:
			if v == nil {
				continue
			}
			sub, ok := v.([]interface{})
			if !ok {
				return fmt.Errorf("field %s: expected message value", fd.Name())
			}
			if err := fill(m.Mutable(fd).Message(), sub, allocEmpty); err != nil {
				return err
			}
		case kRepString:
			l, ok := v.([]interface{})
			if !ok {
				return fmt.Errorf("field %s: expected list", fd.Name())
			}
			if len(l) == 0 && !allocEmpty {
				continue
			}
			lst := m.Mutable(fd).List()
			for _, e := range l {
				s, err := unhex(e)
				if err != nil {
					return err
				}
				lst.Append(protoreflect.ValueOfString(s))
			}
		case kRepMsg:
			l, ok := v.([]interface{})
			if !ok {
				return fmt.Errorf("field %s: expected list", fd.Name())
			}
			if len(l) == 0 && !allocEmpty {
				continue
			}
			lst := m.Mutable(fd).List()
			for _, e := range l {
				el := lst.NewElement()
				if e == nil {
					// nil *T inside a repeated message field (malformed; excluded stream)
					lst.Append(protoreflect.ValueOfMessage(el.Message().Type().Zero()))
					continue
				}
				sub, ok := e.([]interface{})
				if !ok {
					return fmt.Errorf("field %s: expected message element", fd.Name())
				}
				if err := fill(el.Message(), sub, allocEmpty); err != nil {
					return err
				}
				lst.Append(el)
			}
		case kMapSS:
			l, ok := v.([]interface{})
			if !ok {
				return fmt.Errorf("field %s: expected entry list", fd.Name())
			}
			if len(l) == 0 && !allocEmpty {
				continue
			}
			mp := m.Mutable(fd).Map()
			for _, e := range l {
				kv, ok := e.([]interface{})
				if !ok || len(kv) != 2 {
					return fmt.Errorf("field %s: expected [key,value]", fd.Name())
				}
				ks, err := unhex(kv[0])
				if err != nil {
					return err
				}
				vs, err := unhex(kv[1])
				if err != nil {
					return err
				}
				mp.Set(protoreflect.ValueOfString(ks).MapKey(), protoreflect.ValueOfString(vs))
			}
		default:
			return fmt.Errorf("field %s: unsupported (%s)", fd.Name(), why)
		}
	}
	return nil
}

func build(md protoreflect.MessageDescriptor, vals []interface{}, allocEmpty bool) (proto.Message, error) {
	m, err := newMsg(md)
	if err != nil {
		return nil, err
	}
	if err := fill(m, vals, allocEmpty); err != nil {
		return nil, err
	}
	return m.Interface(), nil
}

func scalarDump(fd protoreflect.FieldDescriptor, v protoreflect.Value) string {
	switch fd.Kind() {
	case protoreflect.Int32Kind, protoreflect.Int64Kind:
		return fmt.Sprint(v.Int())
	case protoreflect.Uint32Kind, protoreflect.Uint64Kind:
		return fmt.Sprint(v.Uint())
	case protoreflect.EnumKind:
		return fmt.Sprint(int32(v.Enum()))
	case protoreflect.BoolKind:
		if v.Bool() {
			return "1"
		}
		return "0"
	}
	return "?" + fd.Kind().String()
}

// dump reads a message back into the abstract form (maps sorted by key bytes); unknown
// counts the bytes of unknown fields found anywhere inside.
func dump(m protoreflect.Message, unknown *int) []interface{} {
	fds := m.Descriptor().Fields()
	out := make([]interface{}, fds.Len())
	*unknown += len(m.GetUnknown())
	for j := 0; j < fds.Len(); j++ {
		fd := fds.Get(j)
		k, _ := classify(fd)
		switch k {
		case kScalar:
			out[j] = scalarDump(fd, m.Get(fd))
		case kString:
			out[j] = hexs(m.Get(fd).String())
		case kMsg:
			if m.Has(fd) {
				out[j] = dump(m.Get(fd).Message(), unknown)
			} else {
				out[j] = nil
			}
		case kRepString:
			l := m.Get(fd).List()
			o := make([]interface{}, l.Len())
			for i := range o {
				o[i] = hexs(l.Get(i).String())
			}
			out[j] = o
		case kRepMsg:
			l := m.Get(fd).List()
			o := make([]interface{}, l.Len())
			for i := range o {
				e := l.Get(i).Message()
				if !e.IsValid() {
					o[i] = nil
				} else {
					o[i] = dump(e, unknown)
				}
			}
			out[j] = o
		case kMapSS:
			mp := m.Get(fd).Map()
			type kv struct{ k, v string }
			var es []kv
			mp.Range(func(k protoreflect.MapKey, v protoreflect.Value) bool {
				es = append(es, kv{k.String(), v.String()})
				return true
			})
			sort.Slice(es, func(a, b int) bool { return es[a].k < es[b].k })
			o := make([]interface{}, len(es))
			for i, e := range es {
				o[i] = []interface{}{hexs(e.k), hexs(e.v)}
			}
			out[j] = o
		default:
			out[j] = "unsupported"
		}
	}
	return out
}
