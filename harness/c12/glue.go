package c12

import (
	"context"
	"encoding/hex"
	"fmt"
	"math/rand"
	"os"
	"path/filepath"
	"sync"
	"time"

	"github.com/containerd/nri/pkg/api"
	"google.golang.org/protobuf/proto"
	"google.golang.org/protobuf/reflect/protoreflect"
)

// The `glue` stream drives the generated WebAssembly host glue of pkg/api/api_host.pb.go
// (PluginPlugin.Load and the eight call wrappers, plus the `log` host function) with a
// hand-assembled WebAssembly module, since no real plugin can be compiled here (the plugin
// side, api_plugin.pb.go, needs TinyGo).
//
// The module ("mailbox") exports what Load requires. Every plugin_* function copies the
// request bytes it is handed into one of two buffers and returns the bytes of the PREVIOUS
// request as its response; plugin_shutdown additionally forwards its request to the
// imported host function env.log. Because a generated message re-emits unknown fields
// verbatim, arbitrary bytes can be sent as a request (an otherwise empty message carrying
// them as unknown fields), so:
//
//	request side of F, value Q:  StateChange({}) ; F(Q) ; Shutdown({})  -> the Empty that
//	    comes back carries as unknown fields exactly the bytes the module received for Q;
//	response side of F, value R: StateChange({unknown: R.MarshalVT()}) ; F({}) -> what the
//	    wrapper returns must be R;
//	host function:               Shutdown({unknown: L.MarshalVT()}) -> the harness' Log
//	    handler must be called with L.

func uleb(n uint64) []byte {
	var b []byte
	for {
		c := byte(n & 0x7f)
		n >>= 7
		if n != 0 {
			b = append(b, c|0x80)
		} else {
			return append(b, c)
		}
	}
}

func sleb(v int64) []byte {
	var b []byte
	for {
		c := byte(v & 0x7f)
		v >>= 7
		if (v == 0 && c&0x40 == 0) || (v == -1 && c&0x40 != 0) {
			return append(b, c)
		}
		b = append(b, c|0x80)
	}
}

func wname(s string) []byte { return append(uleb(uint64(len(s))), s...) }

func section(id byte, body []byte) []byte {
	return append(append([]byte{id}, uleb(uint64(len(body)))...), body...)
}

func vec(items ...[]byte) []byte {
	b := uleb(uint64(len(items)))
	for _, it := range items {
		b = append(b, it...)
	}
	return b
}

func cat(parts ...[]byte) []byte {
	var b []byte
	for _, p := range parts {
		b = append(b, p...)
	}
	return b
}

const (
	scratchBase = 0x010000 // malloc always answers this (one outstanding request at a time)
	bufBase     = 0x110000 // two 1 MiB mailbox buffers
	bufSize     = 0x100000
	maxGlueMsg  = bufSize
)

func mailboxWasm() []byte {
	const (
		i32t = 0x7f
		i64t = 0x7e
	)
	lget := func(i uint64) []byte { return append([]byte{0x20}, uleb(i)...) }
	lset := func(i uint64) []byte { return append([]byte{0x21}, uleb(i)...) }
	gget := func(i uint64) []byte { return append([]byte{0x23}, uleb(i)...) }
	gset := func(i uint64) []byte { return append([]byte{0x24}, uleb(i)...) }
	i32c := func(v int64) []byte { return append([]byte{0x41}, sleb(v)...) }
	i64c := func(v int64) []byte { return append([]byte{0x42}, sleb(v)...) }
	var (
		eqz    = []byte{0x45}
		add    = []byte{0x6a}
		sub    = []byte{0x6b}
		mul    = []byte{0x6c}
		or64   = []byte{0x84}
		shl64  = []byte{0x86}
		ext    = []byte{0xad}
		sel    = []byte{0x1b}
		drop   = []byte{0x1a}
		ifv    = []byte{0x04, 0x40}
		els    = []byte{0x05}
		end    = []byte{0x0b}
		mcopy  = []byte{0xfc, 0x0a, 0x00, 0x00}
		calll0 = []byte{0x10, 0x00}
	)
	types := section(1, vec(
		[]byte{0x60, 0x00, 0x01, i64t},             // 0: () -> i64
		[]byte{0x60, 0x02, i32t, i32t, 0x01, i64t}, // 1: (i32,i32) -> i64
		[]byte{0x60, 0x01, i32t, 0x01, i32t},       // 2: (i32) -> i32
		[]byte{0x60, 0x01, i32t, 0x00},             // 3: (i32) -> ()
	))
	imports := section(2, vec(cat(wname("env"), wname("log"), []byte{0x00, 0x01}))) // func 0
	funcs := section(3, vec([]byte{0x00}, []byte{0x01}, []byte{0x01}, []byte{0x02}, []byte{0x03}))
	mem := section(5, vec([]byte{0x00, 0x40})) // min 64 pages
	g := []byte{i32t, 0x01, 0x41, 0x00, 0x0b}
	globals := section(6, vec(g, g, g)) // 0: toggle, 1: len of buffer 0, 2: len of buffer 1
	exp := func(name string, kind byte, idx uint64) []byte { return cat(wname(name), []byte{kind}, uleb(idx)) }
	exports := section(7, vec(
		exp("memory", 2, 0),
		exp("plugin_api_version", 0, 1),
		exp("plugin_configure", 0, 2),
		exp("plugin_synchronize", 0, 2),
		exp("plugin_create_container", 0, 2),
		exp("plugin_update_container", 0, 2),
		exp("plugin_stop_container", 0, 2),
		exp("plugin_update_pod_sandbox", 0, 2),
		exp("plugin_state_change", 0, 2),
		exp("plugin_shutdown", 0, 3),
		exp("malloc", 0, 4),
		exp("free", 0, 5),
	))
	mailbox := cat(
		// dst = bufBase + toggle*bufSize
		i32c(bufBase), gget(0), i32c(bufSize), mul, add, lset(2),
		lget(2), lget(0), lget(1), mcopy,
		gget(0), eqz, ifv, lget(1), gset(1), els, lget(1), gset(2), end,
		// other = bufBase + (1-toggle)*bufSize ; otherLen = toggle==0 ? len1 : len0
		i32c(bufBase), i32c(1), gget(0), sub, i32c(bufSize), mul, add, lset(3),
		gget(2), gget(1), gget(0), eqz, sel, lset(4),
		i32c(1), gget(0), sub, gset(0),
		lget(3), ext, i64c(32), shl64, lget(4), ext, or64,
		end,
	)
	body := func(locals []byte, code []byte) []byte {
		b := cat(locals, code)
		return append(uleb(uint64(len(b))), b...)
	}
	threeLocals := []byte{0x01, 0x03, i32t}
	noLocals := []byte{0x00}
	code := section(10, vec(
		body(noLocals, cat(i64c(1), end)),                               // plugin_api_version
		body(threeLocals, mailbox),                                      // plugin_*
		body(threeLocals, cat(lget(0), lget(1), calll0, drop, mailbox)), // plugin_shutdown: also env.log(request)
		body(noLocals, cat(i32c(scratchBase), end)),                     // malloc
		body(noLocals, end),                                             // free
	))
	return cat([]byte{0x00, 0x61, 0x73, 0x6d, 0x01, 0x00, 0x00, 0x00}, types, imports, funcs, mem, globals, exports, code)
}

type glueFn struct {
	name      string
	req, resp string // message names
}

var glueFns = []glueFn{
	{"Configure", "ConfigureRequest", "ConfigureResponse"},
	{"Synchronize", "SynchronizeRequest", "SynchronizeResponse"},
	{"CreateContainer", "CreateContainerRequest", "CreateContainerResponse"},
	{"UpdateContainer", "UpdateContainerRequest", "UpdateContainerResponse"},
	{"StopContainer", "StopContainerRequest", "StopContainerResponse"},
	{"UpdatePodSandbox", "UpdatePodSandboxRequest", "UpdatePodSandboxResponse"},
	{"StateChange", "StateChangeEvent", "Empty"},
}

type glueObs struct {
	Ok      bool   `json:"ok"`
	Err     string `json:"err"`      // first line of the failure (load, call, trap)
	Sent    string `json:"sent"`     // hex of MarshalVT of the value (what the wrapper must hand over / what was preloaded)
	SentErr string `json:"sent_err"` // MarshalVT failed
	Got     string `json:"got"`      // request side: hex of the bytes that arrived inside the module
	Dec     decRes `json:"dec"`      // response / log side: the message the host side produced, against the value
	LogN    int    `json:"log_calls"`
}

type logRecorder struct {
	mu   sync.Mutex
	last *api.LogRequest
	n    int
}

func (l *logRecorder) Log(ctx context.Context, r *api.LogRequest) (*api.Empty, error) {
	l.mu.Lock()
	defer l.mu.Unlock()
	l.last, l.n = r, l.n+1
	return &api.Empty{}, nil
}

type glueHost struct {
	mu   sync.Mutex
	p    api.Plugin
	rec  *logRecorder
	err  error
	once sync.Once
}

var theGlue glueHost

func (g *glueHost) load(scratch string) {
	g.once.Do(func() {
		g.err = safely(func() error {
			path := filepath.Join(scratch, "mailbox.wasm")
			if err := os.WriteFile(path, mailboxWasm(), 0o644); err != nil {
				return err
			}
			ctx, cancel := context.WithTimeout(context.Background(), 60*time.Second)
			defer cancel()
			pp, err := api.NewPluginPlugin(ctx)
			if err != nil {
				return err
			}
			g.rec = &logRecorder{}
			p, err := pp.Load(ctx, path, g.rec)
			if err != nil {
				return err
			}
			g.p = p
			return nil
		})
	})
}

func firstLine(s string) string {
	for i := 0; i < len(s); i++ {
		if s[i] == '\n' {
			s = s[:i]
			break
		}
	}
	if len(s) > 200 {
		s = s[:200]
	}
	return s
}

// call invokes wrapper `fn` with request message m (which must have the wrapper's request type).
func (g *glueHost) call(fn string, m proto.Message) (resp proto.Message, err error) {
	ctx, cancel := context.WithTimeout(context.Background(), 30*time.Second)
	defer cancel()
	err = safely(func() error {
		var e error
		switch fn {
		case "Configure":
			resp, e = g.p.Configure(ctx, m.(*api.ConfigureRequest))
		case "Synchronize":
			resp, e = g.p.Synchronize(ctx, m.(*api.SynchronizeRequest))
		case "Shutdown":
			resp, e = g.p.Shutdown(ctx, m.(*api.Empty))
		case "CreateContainer":
			resp, e = g.p.CreateContainer(ctx, m.(*api.CreateContainerRequest))
		case "UpdateContainer":
			resp, e = g.p.UpdateContainer(ctx, m.(*api.UpdateContainerRequest))
		case "StopContainer":
			resp, e = g.p.StopContainer(ctx, m.(*api.StopContainerRequest))
		case "UpdatePodSandbox":
			resp, e = g.p.UpdatePodSandbox(ctx, m.(*api.UpdatePodSandboxRequest))
		case "StateChange":
			resp, e = g.p.StateChange(ctx, m.(*api.StateChangeEvent))
		default:
			e = fmt.Errorf("unknown wrapper %q", fn)
		}
		return e
	})
	return resp, err
}

func (s *schema) execGlue(scratch string, in *caseIn) (*glueObs, error) {
	mi, ok := s.byName[in.Msg]
	if !ok {
		return nil, fmt.Errorf("unknown message %q", in.Msg)
	}
	md := s.msgs[mi]
	val, err := build(md, in.Val, in.AllocEmpty)
	if err != nil {
		return nil, err
	}
	o := &glueObs{}
	theGlue.load(scratch)
	if theGlue.err != nil {
		o.Err = "load: " + firstLine(theGlue.err.Error())
		return o, nil
	}
	vm, okvt := val.(vtMsg)
	if !okvt {
		o.SentErr = "no MarshalVT"
		return o, nil
	}
	var sent []byte
	if e := safely(func() error { var e error; sent, e = vm.MarshalVT(); return e }); e != nil {
		o.SentErr = errKind(e)
		return o, nil
	}
	o.Sent = hex.EncodeToString(sent)
	if len(sent) >= maxGlueMsg {
		o.Err = "value too large for the mailbox module"
		return o, nil
	}
	theGlue.mu.Lock()
	defer theGlue.mu.Unlock()
	want := normJSON(in.Val)
	fail := func(step string, e error) (*glueObs, error) {
		o.Err = step + ": " + firstLine(e.Error())
		return o, nil
	}
	switch in.Side {
	case "req":
		if _, e := theGlue.call("StateChange", &api.StateChangeEvent{}); e != nil {
			return fail("clear", e)
		}
		if _, e := theGlue.call(in.Fn, val); e != nil {
			return fail("call", e)
		}
		back, e := theGlue.call("Shutdown", &api.Empty{})
		if e != nil {
			return fail("read-back", e)
		}
		got := []byte(back.ProtoReflect().GetUnknown())
		o.Got = hex.EncodeToString(got)
		o.Ok = true
		// MarshalVT walks Go maps in random order, so `got` need not equal `sent` byte for
		// byte: it has to decode (with the other codec) to the value
		o.Dec = decodeWith(md, val, want, got, false)
	case "resp":
		carrier := &api.StateChangeEvent{}
		carrier.ProtoReflect().SetUnknown(protoreflect.RawFields(sent))
		if _, e := theGlue.call("StateChange", carrier); e != nil {
			return fail("preload", e)
		}
		var reqName string
		for _, f := range glueFns {
			if f.name == in.Fn {
				reqName = f.req
			}
		}
		rmi, ok := s.byName[reqName]
		if !ok {
			return nil, fmt.Errorf("unknown wrapper %q", in.Fn)
		}
		emptyReq, err := newMsg(s.msgs[rmi])
		if err != nil {
			return nil, err
		}
		resp, e := theGlue.call(in.Fn, emptyReq.Interface())
		if e != nil {
			return fail("call", e)
		}
		o.Ok = true
		o.Dec = compareMsg(resp, val, want)
	case "log":
		carrier := &api.Empty{}
		carrier.ProtoReflect().SetUnknown(protoreflect.RawFields(sent))
		theGlue.rec.mu.Lock()
		theGlue.rec.last, theGlue.rec.n = nil, 0
		theGlue.rec.mu.Unlock()
		if _, e := theGlue.call("Shutdown", carrier); e != nil {
			return fail("call", e)
		}
		theGlue.rec.mu.Lock()
		last, n := theGlue.rec.last, theGlue.rec.n
		theGlue.rec.mu.Unlock()
		o.LogN = n
		o.Ok = true
		if last != nil {
			o.Dec = compareMsg(last, val, want)
		} else {
			o.Dec.Err = "no-call"
		}
	default:
		return nil, fmt.Errorf("unknown glue side %q", in.Side)
	}
	return o, nil
}

func compareMsg(got, orig proto.Message, want interface{}) decRes {
	var r decRes
	if got == nil {
		r.Err = "nil"
		return r
	}
	r.Ok = true
	_ = safely(func() error {
		r.Equal = proto.Equal(got, orig)
		r.Dump = dump(got.ProtoReflect(), &r.Unknown)
		return nil
	})
	if r.Dump != nil && deepEq(normJSON(r.Dump), want) {
		r.Same, r.Dump = true, nil
	}
	return r
}

func (s *schema) glueCases(r *rand.Rand, n int) []*caseIn {
	var out []*caseIn
	add := func(fn, side, msg string, v []interface{}, note string) {
		out = append(out, &caseIn{Msg: msg, Val: v, Stream: "glue", Fn: fn, Side: side, Note: fn + "/" + side + ":" + note})
	}
	for _, f := range glueFns {
		for _, side := range []string{"req", "resp"} {
			msg := f.req
			if side == "resp" {
				msg = f.resp
			}
			md := s.msgs[s.byName[msg]]
			add(f.name, side, msg, defaults(md), "all-default")
			for k := 0; k < 2; k++ {
				add(f.name, side, msg, s.randMsg(r, md, 4, 1.0), "every-field-set")
			}
			// large messages: long lists at every level; strings longer than a wasm page
			add(f.name, side, msg, s.bigMsg(r, md, 0), "big-lists")
			add(f.name, side, msg, s.bigMsg(r, md, 70000), "big-lists+70000-byte-strings")
			for k := 0; k < n; k++ {
				p := []float64{0.3, 0.6, 0.9}[r.Intn(3)]
				add(f.name, side, msg, s.randMsg(r, md, 1+r.Intn(3), p), fmt.Sprintf("p=%.1f", p))
			}
		}
	}
	// the host function: every boundary value of LogRequest's two fields, and random ones
	lmd := s.msgs[s.byName["LogRequest"]]
	for j := 0; j < lmd.Fields().Len(); j++ {
		fd := lmd.Fields().Get(j)
		for _, b := range s.fieldBoundaries(r, fd, 0) {
			if hs, ok := b.v.(string); ok && len(hs) > 4000 {
				continue
			}
			v := defaults(lmd)
			v[j] = b.v
			add("Log", "log", "LogRequest", v, string(fd.Name())+":"+b.label)
		}
	}
	for k := 0; k < n; k++ {
		add("Log", "log", "LogRequest", s.randMsg(r, lmd, 1, 0.8), "random")
	}
	return out
}
