package c12

import (
	"fmt"

	"github.com/containerd/nri/pkg/api"
	"google.golang.org/protobuf/proto"
)

// Stream "helper": messages BUILT BY THE PLUGIN-AUTHOR HELPER API (pkg/api/adjustment.go,
// update.go) from well-formed arguments — what a plugin really hands to the encoders — instead
// of through protobuf reflection. The message is read back into the abstract form and takes the
// same road as every other case; the driver does not excuse it as "outside the domain": a helper
// that turns well-formed arguments into an ill-typed message (a string that is not UTF-8, a nil
// list element) makes the two codecs disagree on a message a plugin legitimately built.
var helperStrings = []string{"plain", "", "with space", "k=v", "Grüße aus Österreich ÖŁß", "日本語テキスト",
	"tab\tnl\ncr\r", "\u0085\u009f C1 controls as runes", "emoji 🐳", "-dash", "ÀÁÂ ÐÑ ×"}

func (s *schema) helperCases() []*caseIn {
	var out []*caseIn
	add := func(name, note string, m proto.Message) {
		unknown := 0
		out = append(out, &caseIn{Msg: name, Val: dump(m.ProtoReflect(), &unknown), Stream: "helper", Note: note})
	}
	for i, v := range helperStrings {
		a := &api.ContainerAdjustment{}
		a.AddAnnotation("key-"+v, v)
		a.RemoveAnnotation("gone-" + v)
		a.AddEnv(fmt.Sprintf("E%d", i), v)
		a.AddEnv("N"+v, "x")
		a.RemoveEnv("R" + v)
		a.AddMount(&api.Mount{Destination: "/m/" + v, Source: "/s/" + v, Type: "bind", Options: []string{"ro", v}})
		a.RemoveMount("/old/" + v)
		a.AddDevice(&api.LinuxDevice{Path: "/dev/" + v, Type: "c", Major: 1, Minor: int64(i)})
		a.RemoveDevice("/dev/old" + v)
		a.AddCDIDevice(&api.CDIDevice{Name: "vendor.com/class=" + v})
		a.AddRlimit("RLIMIT_"+v, uint64(i), uint64(i))
		a.SetLinuxCgroupsPath("/cg/" + v)
		a.SetLinuxCPUSetCPUs(v)
		a.SetLinuxCPUSetMems(v)
		a.AddLinuxHugepageLimit(v, uint64(1+i))
		a.SetLinuxBlockIOClass(v)
		a.SetLinuxRDTClass(v)
		a.AddLinuxUnified("u."+v, v)
		a.AddHooks(&api.Hooks{Prestart: []*api.Hook{{Path: "/h/" + v, Args: []string{v}, Env: []string{"H=" + v}}}})
		if i%2 == 0 {
			a.SetArgs([]string{"cmd", v})
		} else {
			a.UpdateArgs([]string{"cmd", v})
		}
		add("ContainerAdjustment", fmt.Sprintf("helpers/%d:%q", i, v), a)

		u := &api.ContainerUpdate{}
		u.SetContainerId("ctr-" + v)
		u.SetLinuxCPUSetCPUs(v)
		u.SetLinuxCPUSetMems(v)
		u.AddLinuxHugepageLimit(v, uint64(2+i))
		u.SetLinuxBlockIOClass(v)
		u.SetLinuxRDTClass(v)
		u.AddLinuxUnified("u."+v, v)
		u.SetLinuxMemoryLimit(int64(i))
		u.SetLinuxCPUShares(uint64(i))
		if i%2 == 1 {
			u.SetIgnoreFailure()
		}
		add("ContainerUpdate", fmt.Sprintf("helpers/%d:%q", i, v), u)
	}
	return out
}
