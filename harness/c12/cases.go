package c12

import (
	"encoding/json"
	"fmt"
	"math/rand"
	"sort"
	"strings"

	"google.golang.org/protobuf/reflect/protoreflect"

	"verifh/internal/hx"
	"verifh/internal/lineio"
)

// ---- boundary tables ----

func scalarBoundaries(fd protoreflect.FieldDescriptor) []string {
	switch fd.Kind() {
	case protoreflect.BoolKind:
		return []string{"0", "1"}
	case protoreflect.Int32Kind, protoreflect.EnumKind:
		return []string{"0", "1", "-1", "2", "127", "128", "255", "16383", "16384", "2097151", "2097152",
			"268435455", "268435456", "2147483647", "-2147483648", "-2147483647", "-128", "-129"}
	case protoreflect.Int64Kind:
		return []string{"0", "1", "-1", "127", "128", "16383", "16384", "2097152", "268435456",
			"2147483647", "2147483648", "-2147483648", "-2147483649", "4294967295", "4294967296",
			"34359738367", "34359738368", "4398046511103", "4398046511104", "562949953421311",
			"562949953421312", "72057594037927935", "72057594037927936", "9223372036854775807",
			"-9223372036854775808", "-9223372036854775807"}
	case protoreflect.Uint32Kind:
		return []string{"0", "1", "127", "128", "16383", "16384", "2097151", "2097152", "268435455",
			"268435456", "2147483647", "2147483648", "4294967295"}
	case protoreflect.Uint64Kind:
		return []string{"0", "1", "127", "128", "16383", "16384", "2097152", "268435456", "4294967295",
			"4294967296", "34359738368", "4398046511104", "562949953421312", "72057594037927935",
			"72057594037927936", "9223372036854775807", "9223372036854775808", "18446744073709551615"}
	}
	return []string{"0"}
}

func stringBoundaries() []string {
	return []string{"", "a", "\x00", "-", "k=v", "héllo", "日本語", "\U0001F600", "߿ࠀ￿\U00010000\U0010ffff",
		strings.Repeat("x", 127), strings.Repeat("y", 128), strings.Repeat("z", 16383), strings.Repeat("w", 16384)}
}

func hexList(ss ...string) []interface{} {
	out := make([]interface{}, len(ss))
	for i, s := range ss {
		out[i] = hexs(s)
	}
	return out
}

func mapVal(kv ...string) []interface{} {
	type e struct{ k, v string }
	var es []e
	for i := 0; i+1 < len(kv); i += 2 {
		es = append(es, e{kv[i], kv[i+1]})
	}
	sort.Slice(es, func(a, b int) bool { return es[a].k < es[b].k })
	out := make([]interface{}, len(es))
	for i, x := range es {
		out[i] = []interface{}{hexs(x.k), hexs(x.v)}
	}
	return out
}

type labelled struct {
	label string
	v     interface{}
}

// boundaries of one field; depth bounds the nesting of the message-typed ones.
func (s *schema) fieldBoundaries(r *rand.Rand, fd protoreflect.FieldDescriptor, depth int) []labelled {
	var out []labelled
	k, _ := classify(fd)
	switch k {
	case kScalar:
		for _, b := range scalarBoundaries(fd) {
			out = append(out, labelled{b, b})
		}
	case kString:
		for i, b := range stringBoundaries() {
			out = append(out, labelled{fmt.Sprintf("s%d/len%d", i, len(b)), hexs(b)})
		}
	case kMsg:
		sub := fd.Message()
		out = append(out, labelled{"nil", nil}, labelled{"empty", defaults(sub)})
		if depth > 0 {
			// every field of the nested message individually, at a reduced table
			fds := sub.Fields()
			for j := 0; j < fds.Len(); j++ {
				bs := s.fieldBoundaries(r, fds.Get(j), depth-1)
				for bi, b := range bs {
					if fds.Len() > 2 && len(bs) > 6 && bi%3 != 1 && bi != len(bs)-1 {
						continue
					}
					v := defaults(sub)
					v[j] = b.v
					out = append(out, labelled{fmt.Sprintf("%s=%s", fds.Get(j).Name(), b.label), v})
				}
			}
		}
		out = append(out, labelled{"full", s.randMsg(r, sub, 3, 1.0)})
	case kRepString:
		out = append(out,
			labelled{"[]", []interface{}{}},
			labelled{"['']", hexList("")},
			labelled{"['a']", hexList("a")},
			labelled{"['','a','']", hexList("", "a", "")},
			labelled{"utf8", hexList("é", "日本", "\U0001F600")},
			labelled{"len127/128", hexList(strings.Repeat("p", 127), strings.Repeat("q", 128))})
		big := make([]string, 200)
		for i := range big {
			big[i] = fmt.Sprintf("e%d", i)
		}
		out = append(out, labelled{"x200", hexList(big...)})
	case kRepMsg:
		sub := fd.Message()
		out = append(out,
			labelled{"[]", []interface{}{}},
			labelled{"[empty]", []interface{}{defaults(sub)}},
			labelled{"[empty,empty]", []interface{}{defaults(sub), defaults(sub)}},
			labelled{"[empty,full,empty]", []interface{}{defaults(sub), s.randMsg(r, sub, 3, 1.0), defaults(sub)}})
		var many []interface{}
		for i := 0; i < 40; i++ {
			many = append(many, s.randMsg(r, sub, 2, 0.5))
		}
		out = append(out, labelled{"x40", many})
	case kMapSS:
		out = append(out,
			labelled{"{}", []interface{}{}},
			labelled{"{'':''}", mapVal("", "")},
			labelled{"{k:''}", mapVal("k", "")},
			labelled{"{'':v}", mapVal("", "v")},
			labelled{"{k:v}", mapVal("k", "v")},
			labelled{"order", mapVal("b", "1", "a", "2", "B", "3", "", "4", "ab", "5", "a\x00", "6", "é", "7", "z", "8")},
			labelled{"len127/128", mapVal(strings.Repeat("k", 127), strings.Repeat("v", 128), strings.Repeat("K", 128), strings.Repeat("V", 127))})
		var kv []string
		for i := 0; i < 40; i++ {
			kv = append(kv, fmt.Sprintf("key-%d", i), fmt.Sprintf("value-%d", i*i))
		}
		out = append(out, labelled{"x40", mapVal(kv...)})
	}
	return out
}

// ---- random values ----

var alphabet = []string{"a", "b", "k", "0", "-", "=", "/", ".", " ", "é", "ß", "日", "\U0001F600", "\x00", "\x7f"}

func randString(r *rand.Rand) string {
	var n int
	switch r.Intn(10) {
	case 0:
		n = 0
	case 1:
		n = 118 + r.Intn(16) // around the one/two-byte length boundary
	case 2:
		n = 20 + r.Intn(60)
	default:
		n = 1 + r.Intn(8)
	}
	var b strings.Builder
	for b.Len() < n {
		b.WriteString(alphabet[r.Intn(len(alphabet))])
	}
	return b.String()
}

func randScalar(r *rand.Rand, fd protoreflect.FieldDescriptor) string {
	bs := scalarBoundaries(fd)
	if r.Intn(3) == 0 {
		return bs[r.Intn(len(bs))]
	}
	w := uint(1 + r.Intn(64))
	u := r.Uint64()
	if w < 64 {
		u &= (uint64(1) << w) - 1
	}
	switch fd.Kind() {
	case protoreflect.BoolKind:
		return fmt.Sprint(u & 1)
	case protoreflect.Int32Kind, protoreflect.EnumKind:
		return fmt.Sprint(int32(u))
	case protoreflect.Int64Kind:
		if r.Intn(2) == 0 {
			return fmt.Sprint(-int64(u >> 1))
		}
		return fmt.Sprint(int64(u))
	case protoreflect.Uint32Kind:
		return fmt.Sprint(uint32(u))
	case protoreflect.Uint64Kind:
		return fmt.Sprint(u)
	}
	return "0"
}

func (s *schema) listMax() int {
	if s.big > 0 {
		return s.big
	}
	return 4
}

// bigMsg: long lists and maps at every level, every field set, and every top-level string
// longer than one WebAssembly page.
func (s *schema) bigMsg(r *rand.Rand, md protoreflect.MessageDescriptor, strLen int) []interface{} {
	s.big = 24
	v := s.randMsg(r, md, 3, 1.0)
	s.big = 0
	fds := md.Fields()
	for j := 0; j < fds.Len(); j++ {
		if k, _ := classify(fds.Get(j)); k == kString && strLen > 0 {
			v[j] = hexs(strings.Repeat("S", strLen))
		}
	}
	return v
}

// randMsg: every field is set with probability p (message fields stop at depth 0).
func (s *schema) randMsg(r *rand.Rand, md protoreflect.MessageDescriptor, depth int, p float64) []interface{} {
	fds := md.Fields()
	out := defaults(md)
	for j := 0; j < fds.Len(); j++ {
		if r.Float64() >= p {
			continue
		}
		fd := fds.Get(j)
		k, _ := classify(fd)
		switch k {
		case kScalar:
			out[j] = randScalar(r, fd)
		case kString:
			out[j] = hexs(randString(r))
		case kMsg:
			if depth > 0 {
				out[j] = s.randMsg(r, fd.Message(), depth-1, p*0.9)
			} else if r.Intn(2) == 0 {
				out[j] = defaults(fd.Message())
			}
		case kRepString:
			n := r.Intn(s.listMax())
			l := make([]interface{}, n)
			for i := range l {
				l[i] = hexs(randString(r))
			}
			out[j] = l
		case kRepMsg:
			n := 0
			if depth > 0 {
				n = r.Intn(s.listMax())
			}
			l := make([]interface{}, n)
			for i := range l {
				l[i] = s.randMsg(r, fd.Message(), depth-1, p*0.8)
			}
			out[j] = l
		case kMapSS:
			n := r.Intn(s.listMax())
			var kv []string
			seen := map[string]bool{}
			for i := 0; i < n; i++ {
				k := randString(r)
				if seen[k] {
					continue
				}
				seen[k] = true
				kv = append(kv, k, randString(r))
			}
			out[j] = mapVal(kv...)
		}
	}
	return out
}

// ---- the streams ----

func (s *schema) name(i int) string {
	md := s.msgs[i]
	return strings.TrimPrefix(string(md.FullName()), string(md.ParentFile().Package())+".")
}

// systematic: every message type × every field × every boundary value of its kind, all
// other fields at their defaults; plus the all-default message and a fully populated one.
func (s *schema) systematic(r *rand.Rand) []*caseIn {
	var out []*caseIn
	for mi, md := range s.msgs {
		nm := s.name(mi)
		out = append(out, &caseIn{Msg: nm, Val: defaults(md), Stream: "field", Note: "all-default"})
		out = append(out, &caseIn{Msg: nm, Val: defaults(md), AllocEmpty: true, Stream: "field", Note: "all-default/alloc-empty"})
		fds := md.Fields()
		for j := 0; j < fds.Len(); j++ {
			fd := fds.Get(j)
			for _, b := range s.fieldBoundaries(r, fd, 1) {
				v := defaults(md)
				v[j] = b.v
				st := "field"
				if strings.Contains(b.label, "=") {
					st = "nested"
				}
				out = append(out, &caseIn{Msg: nm, Val: v, Stream: st, Note: string(fd.Name()) + ":" + b.label})
			}
		}
		for k := 0; k < 3; k++ {
			out = append(out, &caseIn{Msg: nm, Val: s.randMsg(r, md, 4, 1.0), Stream: "full", Note: fmt.Sprintf("every-field-set/%d", k)})
		}
		if fds.Len() > 1 {
			out = append(out, &caseIn{Msg: nm, Val: s.bigMsg(r, md, 0), Stream: "full", Note: "big-lists"})
		}
	}
	return out
}

// lenBoundary: embedded messages whose encoded size crosses the one/two-byte length
// prefix boundary (127/128), by sweeping the length of a string inside them.
func (s *schema) lenBoundary() []*caseIn {
	var out []*caseIn
	for mi, md := range s.msgs {
		fds := md.Fields()
		for j := 0; j < fds.Len(); j++ {
			fd := fds.Get(j)
			k, _ := classify(fd)
			if k != kMsg && k != kRepMsg {
				continue
			}
			sub := fd.Message()
			sj := -1
			for t := 0; t < sub.Fields().Len(); t++ {
				if kk, _ := classify(sub.Fields().Get(t)); kk == kString {
					sj = t
					break
				}
			}
			if sj < 0 {
				continue
			}
			for n := 120; n <= 130; n++ {
				sv := defaults(sub)
				sv[sj] = hexs(strings.Repeat("L", n))
				v := defaults(md)
				if k == kMsg {
					v[j] = sv
				} else {
					v[j] = []interface{}{sv, sv}
				}
				out = append(out, &caseIn{Msg: s.name(mi), Val: v, Stream: "lenb", Note: fmt.Sprintf("%s:inner-string-len-%d", fd.Name(), n)})
			}
		}
	}
	return out
}

func (s *schema) random(r *rand.Rand, n int) []*caseIn {
	// weight message types by their number of fields (the one-field wrappers are covered
	// by the systematic stream already)
	var pick []int
	for mi, md := range s.msgs {
		for k := 0; k <= md.Fields().Len(); k++ {
			pick = append(pick, mi)
		}
	}
	out := make([]*caseIn, 0, n)
	for i := 0; i < n; i++ {
		mi := pick[r.Intn(len(pick))]
		p := []float64{0.15, 0.4, 0.7, 1.0}[r.Intn(4)]
		out = append(out, &caseIn{Msg: s.name(mi), Val: s.randMsg(r, s.msgs[mi], 1+r.Intn(4), p),
			AllocEmpty: r.Intn(4) == 0, Stream: "random", Note: fmt.Sprintf("p=%.2f", p)})
	}
	return out
}

// excluded: values outside the property's domain — strings that are not valid UTF-8 (a
// proto3 `string` must be), nil elements in repeated message fields. Only the
// model/implementation agreement is enforced there; what the code did is recorded.
func (s *schema) excluded(r *rand.Rand) []*caseIn {
	bad := []string{"\xff", "a\x80b", "\xc0\x80", "\xed\xa0\x80", "\xf4\x90\x80\x80", "\xe2\x82", "\xf0\x9f\x98", "\xc2", "\xfe\xfe"}
	var out []*caseIn
	for mi, md := range s.msgs {
		fds := md.Fields()
		for j := 0; j < fds.Len(); j++ {
			fd := fds.Get(j)
			k, _ := classify(fd)
			b := bad[r.Intn(len(bad))]
			v := defaults(md)
			switch k {
			case kString:
				v[j] = hexs(b)
			case kRepString:
				v[j] = hexList("ok", b)
			case kMapSS:
				if r.Intn(2) == 0 {
					v[j] = mapVal(b, "v")
				} else {
					v[j] = mapVal("k", b)
				}
			case kRepMsg:
				v[j] = []interface{}{defaults(fd.Message()), nil}
			default:
				continue
			}
			out = append(out, &caseIn{Msg: s.name(mi), Val: v, Stream: "excluded", Note: fmt.Sprintf("%s:%x", fd.Name(), b)})
		}
	}
	// every kind of ill-formed UTF-8 once, in one fixed string field
	for _, b := range bad {
		if mi, ok := s.byName["KeyValue"]; ok {
			v := defaults(s.msgs[mi])
			v[0] = hexs(b)
			out = append(out, &caseIn{Msg: "KeyValue", Val: v, Stream: "excluded", Note: fmt.Sprintf("key:%x", b)})
		}
	}
	return out
}

// ---- entry point ----

func runCases(o *hx.Opts, w *lineio.Writer) error {
	s := loadSchema()
	var ins []*caseIn
	var ids []string
	if o.Replay != "" {
		cases, err := hx.ReplayCases(o.Replay)
		if err != nil {
			return err
		}
		for _, c := range cases {
			in := &caseIn{}
			if err := json.Unmarshal(c.In, in); err != nil {
				return fmt.Errorf("replay case %s: %v", c.ID, err)
			}
			ins = append(ins, in)
			ids = append(ids, c.ID)
		}
	} else {
		r := o.Rand(12)
		ins = append(ins, s.systematic(r)...)
		ins = append(ins, s.lenBoundary()...)
		ins = append(ins, s.helperCases()...)
		ins = append(ins, s.excluded(o.Rand(13))...)
		ins = append(ins, s.rawCases(o.Rand(15))...)
		ins = append(ins, s.glueCases(o.Rand(16), o.N(25, 400))...)
		ins = append(ins, s.concatCases(o.Rand(17), o.N(1500, 20000))...)
		ins = append(ins, s.random(o.Rand(14), o.N(12000, 300000))...)
		for i, in := range ins {
			ids = append(ids, fmt.Sprintf("%s-%d", in.Stream, i))
		}
	}
	// second direction: the bytes of the Lean encoder for every value. Chunks of cases are
	// processed by a few workers (one driver process each); lines are written in case order.
	const chunk = 4000
	type res struct {
		lines []*lineio.Case
		err   error
	}
	nch := (len(ins) + chunk - 1) / chunk
	results := make([]chan res, nch)
	sem := make(chan struct{}, 4)
	for c := 0; c < nch; c++ {
		results[c] = make(chan res, 1)
		go func(c int) {
			sem <- struct{}{}
			defer func() { <-sem }()
			lo, hi := c*chunk, (c+1)*chunk
			if hi > len(ins) {
				hi = len(ins)
			}
			part := ins[lo:hi]
			lean, leanErrs, err := leanEncode(o.Scratch, fmt.Sprintf("lean-req-%d.jsonl", c), part)
			if err != nil {
				// not fatal for the first direction: recorded in every observation (the driver
				// turns a missing Lean direction into a broken correspondence)
				lean = make([][]variant, len(part))
				leanErrs = make([]string, len(part))
				for i := range leanErrs {
					leanErrs[i] = "lean encoder unavailable: " + err.Error()
				}
			}
			var out res
			for i, in := range part {
				if in.Stream == "concat" {
					cobs, err := s.execConcat(in)
					if err != nil {
						out.err = fmt.Errorf("case %s: %v", ids[lo+i], err)
						break
					}
					out.lines = append(out.lines, &lineio.Case{ID: ids[lo+i], In: in, Obs: cobs})
					continue
				}
				if in.Stream == "glue" {
					gobs, err := s.execGlue(o.Scratch, in)
					if err != nil {
						out.err = fmt.Errorf("case %s: %v", ids[lo+i], err)
						break
					}
					out.lines = append(out.lines, &lineio.Case{ID: ids[lo+i], In: in, Obs: gobs})
					continue
				}
				if in.Stream == "raw" {
					ro, err := s.execRaw(in)
					if err != nil {
						out.err = fmt.Errorf("case %s: %v", ids[lo+i], err)
						break
					}
					out.lines = append(out.lines, &lineio.Case{ID: ids[lo+i], In: in, Obs: ro})
					continue
				}
				obs, err := s.execCase(in, lean[i], leanErrs[i])
				if err != nil {
					out.err = fmt.Errorf("case %s: %v", ids[lo+i], err)
					break
				}
				out.lines = append(out.lines, &lineio.Case{ID: ids[lo+i], In: in, Obs: obs})
			}
			results[c] <- out
		}(c)
	}
	for c := 0; c < nch; c++ {
		r := <-results[c]
		if r.err != nil {
			return r.err
		}
		for _, l := range r.lines {
			if err := w.Put(l); err != nil {
				return err
			}
		}
	}
	return nil
}
