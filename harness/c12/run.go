// Package c12 is the correspondence harness for property C12 (placeholder).
package c12

import (
	"errors"

	"verifh/internal/hx"
	"verifh/internal/lineio"
)

func Run(o *hx.Opts, w *lineio.Writer) error {
	return errors.New("C12 harness not implemented")
}
