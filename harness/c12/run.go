// Package c12 is the correspondence harness for property C12: both generated wire codecs
// of pkg/api (protobuf-go's reflection codec and the MarshalVT/UnmarshalVT/SizeVT methods
// of api_vtproto.pb.go) against each other and against the Lean reference codec.
package c12

import (
	"path/filepath"

	"verifh/internal/hx"
	"verifh/internal/lineio"
)

func Run(o *hx.Opts, w *lineio.Writer) error {
	if o.Tier == "gen" {
		// regeneration step (checks/C12.json pre_lean_cmds): o.Scratch = <out>/scratch
		return runGen(filepath.Dir(o.Scratch))
	}
	return runCases(o, w)
}
